"""Shared by C10/C11: scripted-stub correspondence of FakeModule._decode with the Lean model
(lean/IRModel/Dispatcher.lean, DispatchScript.lean)."""
import vlib

_stub_classes = {}


def stub_class(idx):
    import realenv
    from pyIRDecoder import protocol_base, DecodeError, RepeatLeadInError, RepeatLeadOutError, RepeatTimeoutExpired
    if idx in _stub_classes:
        return _stub_classes[idx]

    def decode(self, data, frequency=0):
        b = self.script.get((data[0] // 1000).bit_length() - 1)
        if b is None or b == 'decode':
            raise DecodeError
        if b == 'rli':
            raise RepeatLeadInError
        if b == 'rlo':
            raise RepeatLeadOutError
        if b == 'rte':
            raise RepeatTimeoutExpired
        if b == 'leak':
            raise IndexError('scripted leak')
        return protocol_base.IRCode(self, data[:], data[:], {'D': b[1], 'frequency': self.frequency})

    cls = type('VStub%d' % idx, (protocol_base.IrProtocolBase,), dict(
        decode=decode, encoding='msb', bit_count=16, repeat_timeout=100000,
        _code_order=[['D', 16]], _parameters=[['D', 0, 15]], _bursts=[[500, -500], [500, -1500]],
        frequency=36000))
    _stub_classes[idx] = cls
    return cls


def frame(fid):
    return [1000 * 2 ** fid, -2000]   # far apart: `data == code` (20 % tolerance) only for the same id


def gen_session(r, n_ops):
    """a random session as a list of driver ops"""
    K = r.randint(1, 5)
    ops = ['disp_new']
    freqs = []
    base = r.choice([36000, 38000, 40000, 56000])
    for i in range(K):
        fq = r.choice([base, base, 36000, 38000, 38400, 40000, 56000, 455000])
        tn, td = r.choice([(0, 1), (1, 1), (2, 1), (2, 1), (5, 1), (5, 2), (20, 1)])
        ops.append('disp_dec %d %d %d %d' % (fq, tn, td, r.choice([1, 1, 1, 0])))
        freqs.append((fq, tn, td))
    fids = list(range(6))
    for i in range(K):
        for fid in fids:
            x = r.random()
            if x < 0.35:
                ops.append('disp_beh %d %d ok %d' % (i, fid, r.choice([fid, fid, r.randint(0, 3)])))
            elif x < 0.45:
                ops.append('disp_beh %d %d %s' % (i, fid, r.choice(['rli', 'rlo', 'rte'])))
            elif x < 0.47:
                ops.append('disp_beh %d %d leak' % (i, fid))
    for _ in range(n_ops):
        x = r.random()
        if x < 0.62:
            fq, tn, td = r.choice(freqs)
            edge_hi = (fq * (100 * td + tn)) // (100 * td)
            edge_lo = (fq * (100 * td - tn)) // (100 * td)
            f = r.choice([0, 0, fq, fq, edge_hi, edge_hi + 1, edge_lo, edge_lo - 1, fq + 1, fq - 1, 12345, fq * 2])
            ops.append('disp_decode %d %d' % (r.choice(fids), max(0, f)))
        elif x < 0.78:
            ops.append('disp_enable %d %d' % (r.randrange(K), r.choice([0, 1])))
        elif x < 0.93:
            ops.append('disp_release')
        else:
            tn, td = r.choice([(0, 1), (1, 1), (2, 1), (5, 1), (5, 2), (20, 1)])
            i = r.randrange(K)
            ops.append('disp_ftol %d %d %d' % (i, tn, td))
            freqs[i] = (freqs[i][0], tn, td)
    return ops


class RealSession:
    """executes the driver ops on the real FakeModule with stub decoders"""
    def __init__(self):
        import realenv
        self.env = realenv
        self.decs = []
        self.cb = []
        realenv.protocols.bind_callback(lambda code: None)
        self._cb_func = realenv.protocols.__dict__['_decode_callback']

    def _show(self, c):
        return '%d:%d' % (self.decs.index(c.decoder), int(c.D)) if c.decoder in self.decs else '?:%s' % c

    def _state(self):
        d = self.env.protocols.__dict__
        lc, ld = d['_last_code'], d['_last_decoder']
        return 'last=%s lastdec=%s' % (self._show(lc) if lc is not None else '-', self.decs.index(ld) if ld in self.decs else '-')

    def run(self, op):
        env = self.env
        w = op.split()
        if w[0] == 'disp_new':
            self.decs = []
            env.reset_dispatcher([])
            return 'ok'
        if w[0] == 'disp_dec':
            d = stub_class(len(self.decs))(env.protocols)
            d.frequency = int(w[1])
            d.frequency_tolerance = int(w[2]) if w[3] == '1' else int(w[2]) / float(w[3])
            d.enabled = w[4] != '0'
            d.script = {}
            self.decs.append(d)
            env.reset_dispatcher(self.decs)
            return 'ok'
        if w[0] == 'disp_beh':
            self.decs[int(w[1])].script[int(w[2])] = ('ok', int(w[4])) if w[3] == 'ok' else w[3]
            return 'ok'
        if w[0] == 'disp_enable':
            self.decs[int(w[1])].enabled = w[2] != '0'
            return 'ok'
        if w[0] == 'disp_ftol':
            self.decs[int(w[1])].frequency_tolerance = int(w[2]) if w[3] == '1' else int(w[2]) / float(w[3])
            return 'ok'
        if w[0] == 'disp_decode':
            env.clock.advance(7)
            try:
                r = env.protocols._decode(frame(int(w[1])), int(w[2]))
                rs = 'None' if r is None else 'True' if r is True else 'code ' + self._show(r)
            except env.pyIRDecoder.IRException as e:
                rs = 'raised-ir ' + type(e).__name__
            except Exception:
                rs = 'raised'
                # the real lock is released by the with-statement; nothing else to repair
            cbs = []
            def on_item(func, args):
                if func is self._cb_func:
                    cbs.append(self._show(args[0]))
                    return False
                return True
            env.drain_process(on_item)
            return '%s ; cb %s ; %s' % (rs, ' '.join(cbs), self._state())
        if w[0] == 'disp_release':
            env.clock.advance(10 ** 7)
            env.poll_timers()
            env.drain_process()
            return 'ok ; ' + self._state()
        return 'bad-op'


def correspondence(ctx, n_sessions, n_ops, salt):
    import realenv
    realenv.take_control()
    saved_decoders = realenv.real_decoders()
    try:
        r = vlib.rng('disp', salt)
        ops, reals, marks = [], [], []
        rs = RealSession()
        kinds = {}
        for s in range(n_sessions):
            sess = gen_session(r, n_ops)
            for o in sess:
                ops.append(o)
                reals.append(rs.run(o))
                kinds[o.split()[0]] = kinds.get(o.split()[0], 0) + 1
                marks.append(s)
        outs = vlib.Driver().run(ops)
        ctx.corr['ops'] += len(ops)
        ctx.corr['dist'].update(kinds)
        res_kinds = {}
        first_bad_session = None
        for i, (o, m, rl) in enumerate(zip(ops, outs, reals)):
            if o.startswith('disp_decode'):
                k = rl.split(' ')[0]
                res_kinds[k] = res_kinds.get(k, 0) + 1
            if m != rl and (first_bad_session is None or marks[i] == first_bad_session):
                if first_bad_session is None:
                    first_bad_session = marks[i]
                    start = marks.index(marks[i])
                    ctx.disagree('session %d op#%d %s  (session ops: %s)' % (marks[i], i - start, o, ' / '.join(ops[start:i + 1])[-1500:]), m, rl)
                # later mismatches in the same session are consequences
            elif m != rl and len(ctx.corr['disagreements']) < 10:
                start = marks.index(marks[i])
                if not any(('session %d ' % marks[i]) in d['op'] for d in ctx.corr['disagreements']):
                    ctx.disagree('session %d op#%d %s  (session ops: %s)' % (marks[i], i - start, o, ' / '.join(ops[start:i + 1])[-1500:]), m, rl)
        ctx.corr['dist']['decode results (real)'] = res_kinds
        ctx.sample({'session': ops[:14], 'real': reals[:14]})
        return ops, outs, reals
    finally:
        realenv.reset_dispatcher(saved_decoders)
