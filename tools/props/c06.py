"""C06 — a held key decodes as the same code on every frame of the sequence.
Theorems: IRModel/Props/C06.lean; search: all real protocols, n = 0..4, every prefix and every single frame."""
import vlib
from props import engine_common as ec, engine_prove, hist_common as hc

MODULES = ['IRModel.Props.C06']
REPEAT_OK = ('IR:RepeatLeadInError', 'IR:RepeatLeadOutError')


def search(ctx, focus=(), deep=1):
    import realenv, protos, pyIRDecoder
    realenv.take_control()
    r = vlib.rng('c06')
    known = [f for f in vlib.load_known().get('findings', []) if f.get('property') == 'C06']
    for d in protos.all_decoders():
        if d.name == 'Universal':
            continue
        plist = [f['witness']['input']['params'] for f in known if f.get('site') == d.name and isinstance(f.get('witness', {}).get('input'), dict) and 'params' in f['witness']['input']]
        plist += protos.corner_params(d)
        for _ in range((2 if not ctx.thorough else 12) * (8 if d.name in focus else 1) * deep):
            plist.append(protos.sample_params(d, r))
        if (d.name in focus or ctx.thorough) and protos.space_size(d) <= 4096:
            plist += list(protos.all_params(d))          # the whole key space of a small (or changed) protocol
        seen_p = set()
        plist = [p for p in plist if not (tuple(sorted(p.items())) in seen_p or seen_p.add(tuple(sorted(p.items()))))]
        for p in plist:
            names = list(p)
            want = ('ok', tuple(sorted(p.items())))
            for n in range(0, 5):
                try:
                    code = protos.encode(d, p, n)
                except Exception:
                    break
                frames = protos.frames(code)
                ctx.count((d.name, tuple(sorted(p.items())), n))
                F = dict(p, protocol=d.name, repeat_n=n)
                # the sequence back to back, and at on-air pace (the clock moves on by each frame's own duration before the
                # next one arrives - a held key takes longer than any repeat timeout)
                for pace in ('back-to-back', 'on-air'):
                    inst = protos.fresh(d)
                    got_code = False
                    bad = False
                    for k, f in enumerate(frames):
                        o = hc.outcome(protos, inst, f, names, d.frequency)
                        realenv.drain_process()
                        if pace == 'on-air':
                            realenv.clock.advance(sum(abs(x) for x in f))
                        if o == want:
                            got_code = True
                        elif o[0] == 'ok':
                            ctx.violation(d.name, 'sequence-other-code', '%s %s n=%d frame %d/%d (%s) decodes as %s' % (d.name, p, n, k, len(frames) - 1, pace, dict(o[1])), dict(F, frame=k), input=dict(params=p, n=n, frame=k, pace=pace))
                            bad = True
                            break
                        elif o[1] not in REPEAT_OK:
                            ctx.violation(d.name, 'sequence-error', '%s %s n=%d frame %d/%d (%s) raised %s' % (d.name, p, n, k, len(frames) - 1, pace, o[1]), dict(F, frame=k, err=o[1]), input=dict(params=p, n=n, frame=k, pace=pace))
                            bad = True
                            break
                    if not bad and not got_code:
                        ctx.violation(d.name, 'sequence-no-code', '%s %s n=%d (%s): no frame of the sequence yields the code' % (d.name, p, n, pace), F, input=dict(params=p, n=n, pace=pace))
                    if bad:
                        break
                # every single frame on a decoder without history
                for k, f in enumerate(frames):
                    o = hc.outcome(protos, protos.fresh(d), f, names, d.frequency)
                    realenv.drain_process()
                    if o[0] == 'ok' and o != want:
                        ctx.violation(d.name, 'single-frame-other-code', '%s %s n=%d frame %d alone decodes as %s' % (d.name, p, n, k, dict(o[1])), dict(F, frame=k), input=dict(params=p, n=n, frame=k))
                        break
                    if o[0] == 'err' and o[1].startswith('LEAK'):
                        pass        # C08's
    ctx.sample({'protocol': 'NEC', 'params': {'device': 1, 'sub_device': 2, 'function': 3}, 'n': 2, 'frames': 3})


def check(ctx):
    ctx.rule = ('proof: C06_wrapper for the full-frame-repeat protocols carrying the kernel-checked obligations wfAll, c01OK, c03OK, c06OK, c07OK, c08OK: for every parameter assignment in range and repeat_count 0..2 '
                'the whole emitted sequence, fed in order to one fresh decoder, yields the encoded parameters on EVERY frame; base decoder without history = full decode only (no key from a bare marker); NEC-style marker returns the held object, state unchanged; '
                'correspondence: real IrProtocolBase.decode histories vs model (idecode ops incl. held code and stop-timer effects); '
                'search: ALL real protocols x parameter sets x n=0..4: the emitted sequence on one fresh decoder (each frame: the code, or RepeatLeadIn/RepeatLeadOut; at least one code), '
                'and every single frame on a decoder without history (the code or an error, never another code). distinct = (protocol, params, n)')
    tabs, ok = engine_prove.prove(ctx, MODULES, with_wrappers=True, wrap_kinds=('c06', 'c01', 'c03', 'c07', 'c08'))
    import fingerprint
    changed_p, changed_e = fingerprint.changed()
    r = vlib.rng('c06corr')
    try:
        ec.standard_correspondence(ctx, r, per_proto=2 if not ctx.thorough else 6, focus=changed_p)
        from props import wrap_common
        wrap_common.correspondence(ctx, vlib.rng('c06wrap'), tabs, getattr(ctx, 'winfo', {}), per_proto=3 if not ctx.thorough else 12, focus=changed_p | engine_prove.failed_protocols(ctx))
    except Exception:
        import traceback
        ctx.oblige('correspondence_driver', False, traceback.format_exc()[-500:])
    search(ctx, changed_p | engine_prove.failed_protocols(ctx), deep=3 if changed_e else 1)


def replay(path):
    ctx = vlib.Ctx('C06', 'quick')
    check(ctx)
    return vlib.finish(ctx)
