"""C12 — each key press ends in exactly one release notification after the repeat timeout.
Model: lean/IRModel/Timer.lean (event machine); theorems: IRModel/Props/C12.lean; tie: the REAL Timer, worker loops'
bodies (run_func poll, in-order drain), IRCode callbacks, decoder and dispatcher under a virtual clock."""
import vlib, itertools

MODULES = ['IRModel.Props.C12']

PROTOS = [('NEC', 'same', True), ('Sony12', 'same', False), ('RC5', 'toggle', False), ('JVC', 'same', False), ('Samsung20', 'same', False)]


class Run:
    def __init__(self, pname, style, has_ditto):
        import realenv, protos
        self.env, self.protos = realenv, protos
        self.d = protos.by_name(pname)
        self.style = style
        for x in protos.all_decoders():
            x.enabled = x is self.d
            x._last_code = None
        realenv.reset_dispatcher()
        r = vlib.rng('c12keys', pname)
        ks = []
        while len(ks) < 2:
            p = protos.sample_params(self.d, r)
            try:
                c0 = protos.fresh(self.d).decode(list(protos.frames(protos.encode(self.d, p))[0]), self.d.frequency)
                if protos.view(c0, list(p)) != p:
                    continue
            except Exception:
                continue
            if all(p != k for k in ks):
                ks.append(p)
        self.keys = ks
        self.frames = {}
        for i, p in enumerate(ks):
            code = protos.encode(self.d, p, 1)
            fr = protos.frames(code)
            self.frames[i + 1] = fr
        self.has_ditto = has_ditto and len(self.frames[1]) > 1 and self.frames[1][1] != self.frames[1][0]
        self.ids = {}
        self.out = []
        self.T = self.d.repeat_timeout or sum(abs(x) for x in self.frames[1][0])
        realenv.protocols.bind_callback(self._decoded)

    def oid(self, code):
        if code is None:
            return None
        if id(code) not in self.ids:
            self.ids[id(code)] = (len(self.ids), code)
        return self.ids[id(code)][0]

    def key_of(self, code):
        v = self.protos.view(code, list(self.keys[0]))
        for i, k in enumerate(self.keys):
            if v == k:
                return i + 1
        return 0

    def _decoded(self, code):
        self._note(code)
        self.out.append('decoded %d/%d' % (self.oid(code), self.key_of(code)))
        code.bind_released_callback(self._released)

    def _released(self, code):
        self.out.append('released %d/%d' % (self.oid(code), self.key_of(code)))

    def _note(self, code):
        # ids in order of creation as seen by the decoder
        dl = self.d._last_code
        if dl is not None:
            self.oid(dl)
        self.oid(code)

    def state(self):
        env = self.env
        dl = self.d._last_code
        pl = env.protocols.__dict__['_last_code']
        if dl is not None:
            self.oid(dl)
        tq = [self.oid(next(c for _, c in self.ids.values() if c.repeat_timer is t)) for t in env.timer_worker.queue]
        armed = sorted(i for i, c in self.ids.values() if c.repeat_timer.timer is not None)
        f = lambda x: '-' if x is None else str(self.oid(x))
        return 'disp %s dec %s tq [%s] armed [%s]' % (f(pl), f(dl), ','.join(map(str, tq)), ','.join(map(str, armed)))

    def event(self, ev):
        env = self.env
        self.out = []
        if ev[0] == 'frame':
            k, t = ev[1], ev[2]
            fr = self.frames[k][0]
            if self.style == 'toggle':
                fr = self.toggled(k, t)
            env.protocols.decode(list(fr), self.d.frequency)
            dl = self.d._last_code
            if dl is not None:
                self.oid(dl)
            env.drain_process()
        elif ev[0] == 'rep':
            env.protocols.decode(list(self.frames[1][1]), self.d.frequency)
            env.drain_process()
        elif ev[0] == 'adv':
            env.clock.advance(ev[1])
            env.poll_timers()
            env.drain_process()
        elif ev[0] == 'clk':
            env.clock.advance(ev[1])          # time passes; the timer thread has not come round yet
        elif ev[0] == 'poll':
            env.poll_timers()
            env.drain_process()
        return '%s | %s' % ('; '.join(self.out), self.state())

    def toggled(self, k, t):
        # RC5: encode() builds the T=0 frame first and the T=1 frame last
        fr = self.frames[k]
        return fr[0] if t == 0 else fr[-1]


def words(T, style, has_ditto, depth, r, sample=None):
    lt, gt = int(T * 0.5), int(T * 1.5) + 50
    base = [('frame', 1, 0), ('frame', 2, 0), ('adv', lt), ('adv', gt), ('clk', gt), ('poll',)]
    if style == 'toggle':
        base.append(('frame', 1, 1))
    if has_ditto:
        base.append(('rep',))
    ws = [w for n in range(1, depth + 1) for w in itertools.product(base, repeat=n)]
    if sample and len(ws) > sample:
        short = [w for w in ws if len(w) <= 3]            # every word up to length 3, a sample of the longer ones
        longer = [w for w in ws if len(w) > 3]
        ws = short + r.sample(longer, min(len(longer), sample))
    return ws


def check(ctx):
    ctx.rule = ('proof (same-object decoders: NEC, Sony, JVC, Samsung, ...): for EVERY event word over {full frame of any key, ditto frame, clock advance with poll, clock tick without poll, poll} the event machine '
                'satisfies Timer.Inv, hence C12_at_most_once (no code object released twice), C12_release_after_delivery, C12_exactly_once (after a silence of 1.2 x timeout every delivered code has been released '
                'exactly once, superseded keys included) and C12_held (after any history: while frames of the held key arrive closer than the padded timeout it is never released and every full or ditto frame '
                'is reported with its code object); the toggle style (RC5) violates the property in the code and in the model (kernel-evaluated witness; known finding). '
                'model: Timer.start/stop/run_func/is_running, one poll of the timer thread, in-order drain of the process worker, IRCode release callbacks (decoder.reset by identity, dispatcher reset by equality '
                'guarded by is_running, user callback); correspondence: the REAL classes driven event by '
                'event (clock patched, worker threads stopped, their loop bodies executed by the harness) vs the model after every event (outputs, held objects, timer queue, armed timers) - this is also what ties '
                'each real protocol to the decoder style its theorems assume; '
                'search: all event words up to depth 4 (quick, sampled above 400 per protocol) / 6 (thorough) over {frame A, frame B, toggled A, ditto frame, advance 0.5 T, advance 1.5 T, tick 1.5 T, poll} for NEC (ditto), Sony12 and '
                'Samsung20 (full-frame repeat), JVC (headerless repeat), RC5 (toggle), each closed by a long advance; oracle: no release while frames arrive closer than T, exactly one release per press after '
                'silence, none afterwards, superseded key released once. distinct = (protocol, word)')
    ctx.level = 'proof'
    vlib.prove(ctx, MODULES)
    vlib.repo_import()
    import realenv
    realenv.take_control()
    r = vlib.rng('c12')
    ops, reals, marks = [], [], []
    known = [f for f in vlib.load_known().get('findings', []) if f.get('property') == 'C12']
    depth = 4 if not ctx.thorough else 6
    for pname, style, ditto in PROTOS:
        try:
            probe = Run(pname, style, ditto)
        except Exception as e:
            ctx.notes.append('%s not usable: %s' % (pname, type(e).__name__))
            continue
        T = probe.T
        ws = words(T, style, probe.has_ditto, depth, r, sample=400 if not ctx.thorough else 6000)
        for f in known:
            w = f.get('witness', {}).get('input', {})
            if isinstance(w, dict) and w.get('protocol') == pname and 'word' in w:
                ws.insert(0, tuple(tuple(e) for e in w['word']))
        for w in ws:
            run = Run(pname, style, ditto)
            ops.append('tm_new %d %s' % (T, 'toggle' if style == 'toggle' else 'same')); reals.append('ok'); marks.append((pname, w))
            trace = []
            full = list(w) + [('adv', int(T * 3))]
            presses = []          # (index, key) of presses that delivered a decode callback with a NEW press semantics
            for i, ev in enumerate(full):
                if ev[0] == 'rep' and not run.has_ditto:
                    continue
                line = run.event(ev)
                trace.append((ev, line))
                if ev[0] == 'frame':
                    ops.append('tm frame %d %d' % (ev[1], ev[2]))
                elif ev[0] == 'rep':
                    ops.append('tm rep')
                elif ev[0] == 'clk':
                    ops.append('tm clk %d' % ev[1])
                elif ev[0] == 'poll':
                    ops.append('tm poll')
                else:
                    ops.append('tm adv %d' % ev[1])
                reals.append(line); marks.append((pname, w))
            ctx.count((pname, w))
            oracle(ctx, pname, style, T, full, trace)
        if ws:
            ctx.sample({'protocol': pname, 'T': T, 'word': [list(e) for e in ws[len(ws) // 2]]})
    cross_protocol(ctx, vlib.rng('c12cross'))
    import protos
    for x in protos.all_decoders():
        x.enabled = True
        x._last_code = None
    realenv.reset_dispatcher()
    try:
        outs = vlib.Driver().run(ops)
        ctx.corr['ops'] = len(ops)
        ctx.corr['dist'] = {'tm events': sum(1 for o in ops if o.startswith('tm ')), 'words': sum(1 for o in ops if o.startswith('tm_new'))}
        ctx.extra['transitions'] = sum(1 for o in ops if o.startswith('tm '))
        ctx.extra['states'] = len(set(l.split(' | ')[-1] for l in reals if ' | ' in l))
        ctx.extra['traces_validated_against_impl'] = sum(1 for o in ops if o.startswith('tm_new'))
        seen = set()
        for o, m, rl, mk in zip(ops, outs, reals, marks):
            if m != rl and mk not in seen and len(ctx.corr['disagreements']) < 10:
                seen.add(mk)
                ctx.disagree('%s word %s at %s' % (mk[0], [list(e) for e in mk[1]], o), m[:300], rl[:300])
    except Exception as e:
        ctx.oblige('correspondence_driver', False, str(e)[:300])


def oracle(ctx, pname, style, T, word, trace):
    """the property on the observed outputs of one word (ending with a long silence)"""
    # reconstruct per object: decoded events (time), released events (time)
    now = 0
    dec_times, rel_times = {}, {}
    last_frame_time = {}
    for ev, line in trace:
        if ev[0] in ('adv', 'clk'):
            now += ev[1]
        outs = line.split(' | ')[0]
        for tok in [t.strip() for t in outs.split(';') if t.strip()]:
            kind, ref = tok.split(' ')
            oid, key = ref.split('/')
            if kind == 'decoded':
                dec_times.setdefault((oid, key), []).append(now)
            else:
                rel_times.setdefault((oid, key), []).append(now)
    F = dict(protocol=pname, style=style)
    inp = dict(protocol=pname, word=[list(e) for e in word[:-1]])
    for obj, decs in dec_times.items():
        rels = rel_times.get(obj, [])
        # presses of this object: maximal groups of decode times whose gaps are < 1.2*T and with no release inside
        if len(rels) == 0:
            ctx.violation(pname, 'never-released', 'code object %s (key %s) was delivered but its release callback never ran; word %s' % (obj[0], obj[1], inp['word']), F, input=inp)
            continue
        # a release while frames keep arriving: some release time r with a decode at d <= r < d + T*1.0 and another decode after r within T of d
        for rt in rels:
            prev = [d for d in decs if d <= rt]
            if prev and rt - prev[-1] < T and any(0 < d - prev[-1] < T and d >= rt for d in decs) and rt != prev[-1]:
                ctx.violation(pname, 'released-while-held', 'object %s released at %d although frames kept arriving; word %s' % (obj[0], rt, inp['word']), F, input=inp)
        # count presses: a new press starts after a release
        presses = 1
        for i in range(1, len(decs)):
            if any(decs[i - 1] <= rt <= decs[i] for rt in rels) and decs[i] != decs[i - 1]:
                presses += 1
        if len(rels) > presses:
            ctx.violation(pname, 'released-more-than-once', 'object %s: %d release(s) for %d press(es); word %s' % (obj[0], len(rels), presses, inp['word']), F, input=inp)
    for obj in rel_times:
        if obj not in dec_times:
            ctx.violation(pname, 'release-without-press', 'object %s released but never delivered; word %s' % (obj[0], inp['word']), F, input=inp)


CROSS = [('Samsung20', 'Sony12'), ('NEC', 'Sony12'), ('JVC', 'NEC'), ('Sony12', 'Panasonic')]


class CrossRun:
    """two enabled protocols with different repeat timeouts, one key of each: the REAL dispatcher, decoders, timers and
    worker loops under the virtual clock (no model: the event machine has one protocol)"""
    def __init__(self, pnames):
        import realenv, protos
        self.env, self.protos = realenv, protos
        self.ds = [protos.by_name(n) for n in pnames]
        for x in protos.all_decoders():
            x.enabled = x in self.ds
        realenv.reset_dispatcher()
        self.frames, self.T, self.keys = {}, {}, {}
        for i, d in enumerate(self.ds):
            r = vlib.rng('c12cross', d.name)
            for _ in range(50):
                p = protos.sample_params(d, r)
                try:
                    fr = protos.frames(protos.encode(d, p))[0]
                    c0 = protos.fresh(d).decode(list(fr), d.frequency)
                    if protos.view(c0, list(p)) == p:
                        break
                except Exception:
                    continue
            self.frames[i + 1] = fr
            self.keys[i + 1] = (d, p)
            self.T[i + 1] = d.repeat_timeout or sum(abs(x) for x in fr)
        self.ids = {}
        self.out = []
        realenv.protocols.bind_callback(self._decoded)

    def oid(self, code):
        if id(code) not in self.ids:
            self.ids[id(code)] = (len(self.ids), code)
        return self.ids[id(code)][0]

    def key_of(self, code):
        for k, (d, p) in self.keys.items():
            if code.decoder is d or code.decoder.__class__ is d.__class__:
                return k
        return 0

    def _decoded(self, code):
        self.out.append(('decoded', self.oid(code), self.key_of(code)))
        code.bind_released_callback(self._released)

    def _released(self, code):
        self.out.append(('released', self.oid(code), self.key_of(code)))

    def event(self, ev):
        env = self.env
        self.out = []
        if ev[0] == 'frame':
            d = self.keys[ev[1]][0]
            env.protocols.decode(list(self.frames[ev[1]]), d.frequency)
            env.drain_process()
        elif ev[0] == 'adv':
            env.clock.advance(ev[1]); env.poll_timers(); env.drain_process()
        elif ev[0] == 'clk':
            env.clock.advance(ev[1])
        elif ev[0] == 'poll':
            env.poll_timers(); env.drain_process()
        return list(self.out)


def cross_protocol(ctx, r):
    """keys of two protocols with different timeouts interleaved: exactly one release per delivered code, none while its
    frames keep arriving, and the release is signalled at the first poll after the code's own padded timeout"""
    import itertools as it
    for pn in CROSS:
        try:
            probe = CrossRun(pn)
        except Exception as e:
            ctx.notes.append('cross %s not usable: %s' % (pn, type(e).__name__))
            continue
        T1, T2 = probe.T[1], probe.T[2]
        lo, hi = min(T1, T2), max(T1, T2)
        small = int(lo * 0.5)
        mid = int((1.2 * lo + min(1.2 * hi, 2.4 * lo)) / 2) if hi > lo * 1.1 else int(lo * 1.3)
        big = int(hi * 1.5) + 50
        base = [('frame', 1), ('frame', 2), ('adv', small), ('adv', mid), ('adv', big), ('clk', mid), ('poll',)]
        depth = 4 if not ctx.thorough else 5
        ws = [w for n in range(2, depth + 1) for w in it.product(base, repeat=n) if any(e[0] == 'frame' for e in w)]
        lim = 250 if not ctx.thorough else 4000
        if len(ws) > lim:
            short = [w for w in ws if len(w) <= 3]
            ws = short + r.sample([w for w in ws if len(w) > 3], max(0, lim - len(short)))
        for w in ws:
            run = CrossRun(pn)
            now = 0
            last_dec, rels, delivered = {}, {}, {}
            F = dict(protocols=list(pn))
            full = list(w) + [('adv', int(hi * 3))]
            inp = dict(protocols=list(pn), word=[list(e) for e in w])
            for ev in full:
                if ev[0] in ('adv', 'clk'):
                    now += ev[1]
                outs = run.event(ev)
                for kind, oid, key in outs:
                    if kind == 'decoded':
                        last_dec[oid] = now; delivered[oid] = key
                    else:
                        rels.setdefault(oid, []).append(now)
                        if oid not in delivered:
                            ctx.violation('cross ' + '+'.join(pn), 'release-without-press', 'object %d released but never delivered; word %s' % (oid, inp['word']), F, input=inp)
                        elif now - last_dec[oid] < run.T[delivered[oid]] and ev[0] != 'frame':
                            ctx.violation('cross ' + '+'.join(pn), 'released-while-held', 'object %d (key %d) released %d us after its last frame, timeout %d; word %s' % (
                                oid, delivered[oid], now - last_dec[oid], run.T[delivered[oid]], inp['word']), F, input=inp)
                if ev[0] in ('adv', 'poll'):
                    for oid, key in delivered.items():
                        if oid not in rels and now - last_dec[oid] > 1.2 * run.T[key] + 10:
                            ctx.violation('cross ' + '+'.join(pn), 'release-overdue', 'object %d (key %d of %s): no release although %d us have passed since its last frame (padded timeout %d) and the timer thread has polled; word %s' % (
                                oid, key, pn[key - 1], now - last_dec[oid], int(1.2 * run.T[key]), inp['word']), F, input=inp)
                            rels[oid] = ['overdue']
            for oid, key in delivered.items():
                n = len([x for x in rels.get(oid, []) if x != 'overdue'])
                presses = 1
                if n > presses and not any(x == 'overdue' for x in rels.get(oid, [])):
                    ctx.violation('cross ' + '+'.join(pn), 'released-more-than-once', 'object %d: %d releases; word %s' % (oid, n, inp['word']), F, input=inp)
            ctx.count(('cross', pn, w))
    import protos, realenv
    for x in protos.all_decoders():
        x.enabled = True
    realenv.reset_dispatcher()


def replay(path):
    ctx = vlib.Ctx('C12', 'quick')
    check(ctx)
    return vlib.finish(ctx)
