"""C09 — decoding never modifies caller data; decoder instances are isolated; encoding is repeatable.
Theorems: IRModel/Props/C09.lean; search: argument-after on every call, two-instance interleavings, repeated encode."""
import vlib, copy
from props import engine_common as ec, engine_prove, hist_common as hc

MODULES = ['IRModel.Props.C09']


def search(ctx, focus=(), deep=1):
    import realenv, protos, pyIRDecoder
    env = realenv
    env.take_control()
    r = vlib.rng('c09')
    decs = protos.all_decoders()
    # (a) argument untouched: valid, corrupted and garbage input, on decoders and on the dispatcher
    for d in decs:
        if d.name == 'Universal':
            continue
        ks = hc.keys_for(protos, d, r, 2)
        inputs = []
        for p, code in ks:
            for f in protos.frames(code)[:2]:
                inputs.append(f)
                g = list(f); g[len(g) // 2] = g[len(g) // 2] * 3; inputs.append(g)
                inputs.append(f[:len(f) // 2])
        inputs.append(ec.garbage(r))
        inst = protos.fresh(d)
        for data in inputs:
            if not data:
                continue
            arg = list(data)
            try:
                inst.decode(arg, d.frequency)
            except Exception:
                pass
            env.drain_process()
            ctx.count(('arg', d.name, tuple(data[:30])))
            if arg != data:
                ctx.violation(d.name, 'argument-modified', '%s.decode changed its argument: %s -> %s' % (d.name, data[:8], arg[:8]), dict(protocol=d.name), input=dict(data=data))
        # dispatcher
        for data in inputs[:2]:
            if not data:
                continue
            for form in (list, tuple):
                arg = form(data)
                keep = form(data)
                try:
                    env.protocols.decode(arg, d.frequency)
                except Exception:
                    pass
                env.drain_process()
                if arg != keep:
                    ctx.violation('FakeModule.decode', 'argument-modified', 'dispatcher changed its argument (frame of %s)' % d.name, dict(protocol=d.name), input=dict(data=data))
        env.reset_dispatcher()
        for x in decs:
            x._last_code = None
        # (b) isolation: ops on instance Y (same class) never change what instance X returns
        if len(ks) >= 2:
            names = list(ks[0][0])
            fx = [f for p, c in ks[:1] for f in protos.frames(protos.encode(d, p, 1))][:3] if True else []
            try:
                fy = protos.frames(protos.encode(d, ks[1][0], 1))[:3]
            except Exception:
                fy = []
            solo = protos.fresh(d)
            ref = [hc.outcome(protos, solo, f, names, d.frequency) for f in fx]
            env.drain_process()
            for mode in ('y-before', 'interleaved', 'y-encode'):
                X, Y = protos.fresh(d), protos.fresh(d)
                got = []
                if mode == 'y-before':
                    for f in fy[:2]:
                        hc.outcome(protos, Y, f, names, d.frequency)
                if mode == 'y-encode':
                    try:
                        protos.encode(Y, ks[1][0], 2)
                    except Exception:
                        pass
                for i, f in enumerate(fx):
                    got.append(hc.outcome(protos, X, f, names, d.frequency))
                    if mode == 'interleaved' and i < len(fy):
                        hc.outcome(protos, Y, fy[i], names, d.frequency)
                env.drain_process()
                ctx.count(('iso', d.name, mode))
                if got != ref:
                    k = next(i for i in range(len(ref)) if got[i] != ref[i])
                    ctx.violation(d.name, 'instances-not-isolated', '%s: activity on a second instance (%s) changes frame %d of instance X: %s instead of %s' % (d.name, mode, k, got[k], ref[k]),
                                  dict(protocol=d.name, mode=mode), input=dict(mode=mode, X=ks[0][0], Y=ks[1][0]))
            # isolation also holds across SETTINGS: another instance with a different tolerance, fed the same slightly-off
            # frames, must not change what X makes of them (state shared outside the instance - class-level caches keyed
            # without the setting - only shows up when the two instances disagree about a window)
            if fx:
                base_f = fx[0]
                seq = [base_f] + [[int(round(x * k)) or (1 if x > 0 else -1) for x in base_f] for k in (1.10, 1.30, 0.93, 0.75)]
                for xtol, ytol in ((None, 40), (None, 5), (40, None), (5, None)):
                    def mk(tol):
                        i_ = protos.fresh(d)
                        if tol is not None:
                            i_.tolerance = tol
                        return i_
                    solo = mk(xtol)
                    ref2 = [hc.outcome(protos, solo, f, names, d.frequency) for f in seq]
                    env.drain_process()
                    for order in ('y-first', 'alternating'):
                        X, Y = mk(xtol), mk(ytol)
                        got2 = []
                        if order == 'y-first':
                            for f in seq:
                                hc.outcome(protos, Y, f, names, d.frequency)
                        for f in seq:
                            if order == 'alternating':
                                hc.outcome(protos, Y, f, names, d.frequency)
                            got2.append(hc.outcome(protos, X, f, names, d.frequency))
                        env.drain_process()
                        ctx.count(('iso-tol', d.name, xtol, ytol, order))
                        if got2 != ref2:
                            k = next(i for i in range(len(ref2)) if got2[i] != ref2[i])
                            ctx.violation(d.name, 'instances-not-isolated', '%s: instance X (tolerance %s) decodes frame variant %d as %s after an instance with tolerance %s saw the same frames (%s); alone: %s' % (
                                d.name, xtol or 'default', k, got2[k], ytol or 'default', order, ref2[k]), dict(protocol=d.name, mode='tolerance-' + order),
                                input=dict(mode='tolerance-' + order, X=ks[0][0], xtol=xtol, ytol=ytol, variant=k))
        # (c) repeated encoding
        for p, code in ks[:1]:
            try:
                c1 = protos.encode(d, p, 1); c2 = protos.encode(d, p, 1)
                ctx.count(('enc', d.name))
                same_frames = c1.normalized_rlc == c2.normalized_rlc
                try:
                    same_id = str(c1) == str(c2)
                except Exception:
                    same_id = True
                if not same_frames or not same_id:
                    ctx.violation(d.name, 'encode-not-repeatable', '%s.encode(%s) twice: frames equal=%s identity equal=%s' % (d.name, p, same_frames, same_id), dict(protocol=d.name), input=dict(params=p))
            except Exception:
                pass
    # fresh-interpreter isolation probes: state kept at class/module level is shared by everything that ran before in THIS
    # process, so "X alone" and "X after Y" are each run in a process of their own (tools/iso_probe.py)
    import subprocess, json as _json, os as _os
    probe = _os.path.join(vlib.VERIF, 'tools', 'iso_probe.py')
    plist = [n for n in ('NEC', 'Sony12', 'JVC', 'Panasonic', 'RC5', 'Bose') if protos.by_name(n) is not None]
    plist += [n for n in sorted(focus) if n not in plist][:6]

    def run_probe(name, xtol, ytol, mode):
        pr = subprocess.run(['/venv/bin/python', probe, name, str(xtol), str(ytol), mode], capture_output=True, text=True, timeout=120,
                            env=dict(_os.environ, VERIF_REPO=vlib.REPO))
        for l in pr.stdout.splitlines():
            if l.startswith('RESULT '):
                return _json.loads(l[7:])
        return None
    for name in plist:
        for xtol, ytol in (('-', 40), (40, '-')) + ((('-', 5), (5, '-')) if ctx.thorough else ()):
            a = run_probe(name, xtol, ytol, 'alone')
            b = run_probe(name, xtol, ytol, 'after-y')
            if a is None or b is None:
                ctx.notes.append('isolation probe %s %s/%s did not run' % (name, xtol, ytol))
                continue
            ctx.count(('iso-fresh', name, xtol, ytol))
            if a != b:
                k = next(i for i in range(len(a)) if a[i] != b[i])
                ctx.violation(name, 'instances-not-isolated', '%s (fresh interpreter): instance X (tolerance %s) decodes frame variant %d as %s after an instance with tolerance %s saw the same frames; alone: %s' % (
                    name, xtol, k, b[k], ytol, a[k]), dict(protocol=name, mode='fresh-interpreter'), input=dict(mode='fresh-interpreter', protocol=name, xtol=xtol, ytol=ytol, variant=k))
    ctx.sample({'isolation_modes': ['y-before', 'interleaved', 'y-encode'], 'argument_forms': ['list', 'tuple']})


def check(ctx):
    ctx.rule = ('proof: the model decodes by value, a world of instances obeys the frame rule, isolation follows for every operation sequence on other instances; '
                'correspondence: real IrProtocolBase.decode vs model with the held code compared after every op; search: every real decoder and the dispatcher: caller list compared '
                'before/after on valid / damaged / truncated / garbage input; two real instances of the same class: X alone vs X with Y fed before, interleaved (incl. partial multi-frame keys) '
                'and with encode() on Y; encode twice. distinct = (kind, protocol, input/mode)')
    tabs, ok = engine_prove.prove(ctx, MODULES, with_obligations=False)
    import fingerprint
    changed_p, changed_e = fingerprint.changed()
    r = vlib.rng('c09corr')
    try:
        ec.standard_correspondence(ctx, r, per_proto=2 if not ctx.thorough else 5, focus=changed_p)
    except Exception:
        import traceback
        ctx.oblige('correspondence_driver', False, traceback.format_exc()[-500:])
    search(ctx, changed_p)


def replay(path):
    ctx = vlib.Ctx('C09', 'quick')
    check(ctx)
    return vlib.finish(ctx)
