"""C20 — the fallback (universal) decoder gives unknown signals a stable identity.
Model: lean/IRModel/Universal.lean (exact float clustering); theorems: IRModel/Props/C20.lean; tie: code value of the
real Universal.decode vs model on every signal explored."""
import vlib, io, contextlib

MODULES = ['IRModel.Props.C20']


def signals(ctx, r, protos):
    sigs = []
    for d in protos.all_decoders():
        if d.name == 'Universal':
            continue
        try:
            c = protos.encode(d, protos.sample_params(d, r))
            f = protos.frames(c)[0]
            if len(f) > 6:
                sigs.append((d.name, f))
        except Exception:
            pass
    n = 120 if not ctx.thorough else 1500
    vals = [300, 450, 560, 600, 889, 1200, 1690, 2400, 4500, 9000]
    for _ in range(n):
        ln = r.choice([7, 8, 9, 12, 16, 24, 33, 34, 48, 67, 68, 100, 200, r.randint(8, 200)])
        k = r.random()
        if k < 0.5:
            base = r.sample(vals, r.randint(2, 4))
            sigs.append(('grid', [(1 if i % 2 == 0 else -1) * r.choice(base) for i in range(ln)]))
        elif k < 0.8:
            sigs.append(('random', [(1 if i % 2 == 0 else -1) * r.randint(100, 6000) for i in range(ln)]))
        else:
            m, s = r.choice(vals), r.choice(vals)
            sigs.append(('constant-pair', [m, -s] * (ln // 2 + 1)))
    sigs.append(('constant-pair', [500, -1500] * 12))
    sigs.append(('constant-pair', [431, -287] + [172, -460] * 6))
    sigs.append(('two-values', [600, -600] * 5 + [1200, -600] * 5))
    # constant-bit-time remotes: the two symbols have the same total duration (short mark + long space / long mark + short space)
    for u_, k_ in ((400, 3), (300, 3), (500, 2), (250, 4)):
        for _ in range(2 if not ctx.thorough else 8):
            nb = r.randint(6, 16)
            bits = [r.randint(0, 1) for _ in range(nb)]
            if len(set(bits)) == 1:
                bits[0] ^= 1
            body = [x for b_ in bits for x in ((u_ * k_, -u_) if b_ else (u_, -u_ * k_))]
            sigs.append(('constant-bit-time', [u_ * 8, -u_ * 4] + body + [u_, -30000]))
    # families that share their burst pairs: a signal with two kinds of data pair, then the degenerate keys made of only
    # one of them (all-zeros / all-ones of the same remote), decoded one after the other on the SAME long-lived instance
    for _ in range(6 if not ctx.thorough else 40):
        lead = [r.choice([2400, 4500, 9000]), -r.choice([600, 2250, 4500])]
        m = r.choice([400, 450, 550, 600])
        s0, s1 = r.sample([400, 550, 600, 1200, 1650, 1700], 2)
        tail = [m, -r.choice([20000, 30000, 45000])]
        nb = r.randint(4, 12)
        pat = [r.randint(0, 1) for _ in range(nb)]
        if len(set(pat)) == 1:
            pat[0] ^= 1
        mk = lambda bits: lead + [x for b in bits for x in (m, -(s1 if b else s0))] + tail
        sigs.append(('family-mixed', mk(pat)))
        sigs.append(('family-ones', mk([1] * nb)))
        sigs.append(('family-zeros', mk([0] * nb)))
        sigs.append(('family-mixed', mk(pat[::-1])))
        sigs.append(('family-ones', mk([1] * nb)))
    return sigs


def real_code(u, sig, freq=0):
    with contextlib.redirect_stderr(io.StringIO()):
        c = u.decode(list(sig), freq)
    return int(c.code)


def near_cell_boundary(sig, tol, q):
    """does any duration class of the signal have its nominal value within q of a 50 us rounding boundary (x mod 50 in [25-q, 25+q])
    or two distinct same-sign values within tolerance-clustering distance? Such signals are expected to be unstable."""
    vals = sorted(set(sig))
    for v in vals:
        a = abs(v)
        m = a % 50
        if abs(m - 25) <= a * q + 2:
            return True
    pos = sorted(abs(v) for v in vals if v > 0)
    neg = sorted(abs(v) for v in vals if v < 0)
    for l in (pos, neg):
        for a, b in zip(l, l[1:]):
            if b <= a * (1 + tol / 100.0) * (1 + 2 * q) * 1.02 + 2 and b >= a * (1 + tol / 100.0) * (1 - 2 * q) * 0.9 - 2:
                return True         # pair straddling the clustering threshold
            if b <= a * (1 + tol / 100.0) * (1 + 2 * q) + 2:
                pass
    return False


def check(ctx):
    ctx.level = 'proof'
    ctx.rule = ('proof: short input rejected; the only other exception is the IndexError of __decode_2 on an emptied list; __decode_2 total when a value survives; the model is a function of (signal, tolerance). '
                'correspondence: the integer code of the REAL Universal.decode vs the exact-float Lean model on one frame of every protocol, grid-like / random / constant-pair signals of 7..200 durations, and '
                'their perturbations; search: no exception on well-formed signals longer than six durations, same code on the dispatcher instance after other decodes and on a fresh instance, '
                'and the same code under per-duration perturbation by at most tolerance/4 (3 perturbations per signal). distinct = signals; non-trivial = at least 3 distinct durations')
    vlib.prove(ctx, MODULES)
    vlib.repo_import()
    import realenv, protos
    realenv.take_control()
    r = vlib.rng('c20')
    u = protos.by_name('Universal')
    sigs = signals(ctx, r, protos)
    known = [f for f in vlib.load_known().get('findings', []) if f.get('property') == 'C20']
    for f in known:
        w = f.get('witness', {}).get('input', {})
        if isinstance(w, dict) and 'signal' in w:
            sigs.insert(0, ('witness', w['signal']))
    ops, reals = [], []
    pairs = []          # (signal, perturbed, op index of the signal, op index of the perturbation, real codes)
    tol = 20
    for kind, sig in sigs:
        ctx.count((kind, tuple(sig)), nontrivial=len(set(sig)) >= 3)
        ops.append('universal %d 1 %s' % (tol, ' '.join(map(str, sig))))
        ibase = len(ops) - 1
        F = dict(kind=kind, length=len(sig))
        try:
            base = real_code(u, sig)
            reals.append('ok %d' % base)
        except Exception as e:
            reals.append('err ' + type(e).__name__)
            ctx.violation('Universal.decode', 'raises', '%s on a %s signal of %d durations: %s' % (type(e).__name__, kind, len(sig), sig[:10]), F, input=dict(signal=sig))
            continue
        # history / instance independence
        try:
            u.decode([9000, -4500] + [560, -560] * 10 + [560, -30000], 38000)
            again = real_code(u, sig, 38000)
            fresh = real_code(protos.fresh(u), sig)
            if again != base or fresh != base:
                ctx.violation('Universal.decode', 'history-dependent', 'code %d, after another decode %d, fresh instance %d' % (base, again, fresh), F, input=dict(signal=sig))
        except Exception as e:
            ctx.violation('Universal.decode', 'raises', '%s on repeat decode' % type(e).__name__, F, input=dict(signal=sig))
        # stability under quarter-tolerance perturbation
        q = tol / 400.0
        for k in range(5):
            pert = []
            big = max(abs(y) for y in sig[:-1]) if len(sig) > 1 else 0
            for x in sig:
                d = int(abs(x) * q)
                if k == 3:       # duration classes drift apart: every mark short, every space as sent
                    v = abs(x) - (d if x > 0 else 0)
                elif k == 4:     # every space long, every mark as sent
                    v = abs(x) + (d if x < 0 else 0)
                else:
                    v = abs(x) + (r.randint(-d, d) if k else (d if (len(pert) % 2 == 0) else -d))
                pert.append(max(1, v) if x > 0 else -max(1, v))
            ops.append('universal %d 1 %s' % (tol, ' '.join(map(str, pert))))
            try:
                c2 = real_code(u, pert)
                reals.append('ok %d' % c2)
            except Exception as e:
                reals.append('err ' + type(e).__name__)
                ctx.violation('Universal.decode', 'raises', '%s on a perturbed %s signal' % (type(e).__name__, kind), F, input=dict(signal=pert))
                continue
            pairs.append((kind, sig, pert, ibase, len(ops) - 1, base, c2))
            if c2 != base:
                ctx.violation('Universal.decode', 'unstable-under-perturbation', '%s signal of %d durations: code %d becomes %d under a perturbation of at most tolerance/4' % (kind, len(sig), base, c2),
                              dict(F, distinct=len(set(sig))), input=dict(signal=sig, perturbed=pert))
                break
    try:
        outs = vlib.Driver().run(ops)
        ctx.corr['ops'] = len(ops)
        ctx.corr['dist'] = {'universal': len(ops)}
        for o, m, rl in zip(ops, outs, reals):
            if m != rl and len(ctx.corr['disagreements']) < 10:
                ctx.disagree(o[:300], m, rl)
        # the recorded instability of the unchanged algorithm is exactly what the model reproduces; a pair on which the real
        # decoder changes its answer while the model of the unchanged algorithm keeps it is a different, new instability
        for kind, sig, pert, ib, ip, base, c2 in pairs:
            if c2 != base and ib < len(outs) and ip < len(outs) and outs[ib] == outs[ip] and outs[ib].startswith('ok'):
                ctx.violation('Universal.decode', 'unstable-where-the-algorithm-is-stable',
                              '%s signal of %d durations: code %d becomes %d under a perturbation of at most tolerance/4, although the modelled (unchanged) algorithm gives %s for both' % (
                                  kind, len(sig), base, c2, outs[ib]), dict(kind=kind, length=len(sig)), input=dict(signal=sig, perturbed=pert))
    except Exception as e:
        ctx.oblige('correspondence_driver', False, str(e)[:300])
    ctx.sample({'signal': sigs[5][1][:16], 'kind': sigs[5][0]})


def replay(path):
    ctx = vlib.Ctx('C20', 'quick')
    check(ctx)
    return vlib.finish(ctx)
