"""C14 — a code's identity (string, int, hex, equality) is consistent and collision-free.
Model: lean/IRModel/Identity.lean; theorems: IRModel/Props/C14.lean; tie: str/int/hex of real codes vs model."""
import vlib, itertools
from props import engine_prove

MODULES = ['IRModel.Props.C14']


def ident_op(d, code):
    fields = []
    for n, w in d._code_order:
        fields.append('%d:%d' % (int(code._data[n]), w))
    return 'ident %s %s %s' % ('msb' if d.encoding == 'msb' else 'lsb', d.name, ' '.join(fields))


def real_ident(code):
    def g(f):
        try:
            return f()
        except Exception as e:
            return type(e).__name__
    return 'str=%s int=%s hex=%s' % (g(lambda: str(code)), g(lambda: str(int(code))), g(lambda: code.hexadecimal))


def check(ctx):
    ctx.rule = ('proof: integer identity = positional value of a fixed-width bit string (injective on equal-length bit lists), a code equals its own timing list at any tolerance, '
                '__int__ raises exactly when there are no identifying bits; correspondence: str / int / hexadecimal of real encoded and decoded codes of every protocol with a '
                '_code_order vs the Lean model, and list equality vs the model; search: per protocol all pairs on spaces <= 2^10 (thorough), otherwise single-field-difference pairs '
                '(incl. shifted values with zero prefix fields), multi-field pairs and random pairs: equal params <=> equal str/int/hex/==, hex even and parses back, nothing raises, '
                'decoded == encoded, code == own timings, code != the timings of another key. distinct = (protocol, pair)')
    engine_prove.prove(ctx, MODULES, with_obligations=False)
    vlib.repo_import()
    import realenv, protos
    realenv.take_control()
    r = vlib.rng('c14')
    ops, reals = [], []
    known = [f for f in vlib.load_known().get('findings', []) if f.get('property') == 'C14']
    import fingerprint
    changed_p, changed_e = fingerprint.changed()
    for d in protos.all_decoders():
        if d.name == 'Universal':
            continue
        specs = protos.param_specs(d)
        if not specs:
            continue
        total = 1
        for _, lo, hi in specs:
            total *= (hi - lo + 1)
        plist = []
        if total <= 1024 and (ctx.thorough or d.name in changed_p):
            plist = [dict(zip([s[0] for s in specs], vs)) for vs in itertools.product(*[range(lo, hi + 1) for _, lo, hi in specs])]
        else:
            base = {n: lo for n, lo, hi in specs}
            plist.append(dict(base))
            # single-field differences on a zero background: 1, 2, 4, ... (shift collisions), max
            for n, lo, hi in specs:
                k = 1
                while lo + k <= hi and k <= 1 << 20:
                    p = dict(base); p[n] = lo + k; plist.append(p); k *= 2
                p = dict(base); p[n] = hi; plist.append(p)
            # multi-field pairs that concatenate ambiguously without padding
            names = [s[0] for s in specs]
            for a, b in itertools.combinations(range(len(specs)), 2):
                for va, vb in ((1, 1), (0, 3), (1, 0), (0, 1), (2, 1), (1, 2)):
                    p = dict(base)
                    if specs[a][1] + va <= specs[a][2] and specs[b][1] + vb <= specs[b][2]:
                        p[names[a]] = specs[a][1] + va; p[names[b]] = specs[b][1] + vb
                        plist.append(p)
            for _ in range(6 if not ctx.thorough else 40):
                plist.append(protos.sample_params(d, r))
        for f in known:
            if f.get('site') == d.name and isinstance(f.get('witness', {}).get('input'), dict) and 'a' in f['witness']['input']:
                plist.append(f['witness']['input']['a']); plist.append(f['witness']['input']['b'])
        codes = []
        seen = set()
        for p in plist:
            key = tuple(sorted(p.items()))
            if key in seen:
                continue
            seen.add(key)
            try:
                c = protos.encode(d, p)
            except Exception:
                continue
            codes.append((p, c))
        if not codes:
            continue
        # correspondence + per-code clauses
        ident_names = [n for n, _ in d._code_order]
        for p, c in codes[:40 if not ctx.thorough else 400]:
            if d._code_order and all(n in c._data for n in ident_names) and 'CODE' not in c._data and c._name is None:
                ops.append(ident_op(d, c)); reals.append(real_ident(c))
        info = []
        for p, c in codes:
            F = dict(protocol=d.name)
            try:
                s, i, h = str(c), int(c), c.hexadecimal
            except Exception as e:
                ctx.violation(d.name, 'identity-raises', '%s %s: %s' % (d.name, p, type(e).__name__), F, input=dict(a=p, b=p))
                continue
            def _parses_to(hs, want):
                try:
                    return len(hs) > 2 and int(hs, 16) == want
                except (TypeError, ValueError):
                    return False
            if not isinstance(h, str) or len(h) % 2 != 0 or not h.startswith('0x') or not _parses_to(h, i):
                ctx.violation(d.name, 'hex-form', '%s %s: hex %r does not parse back to int %d (or has an odd / zero number of digits)' % (d.name, p, h, i), F, input=dict(a=p, b=p))
            try:
                if not (c == c.normalized_rlc if len(c.normalized_rlc) > 1 else c == c.normalized_rlc[0]):
                    ctx.violation(d.name, 'not-equal-own-timings', '%s %s' % (d.name, p), F, input=dict(a=p, b=p))
            except Exception as e:
                ctx.violation(d.name, 'identity-raises', '%s %s: == own timings raised %s' % (d.name, p, type(e).__name__), F, input=dict(a=p, b=p))
            idv = tuple(int(c._data[n]) for n in ident_names if n in c._data)
            info.append((p, c, s, i, h, idv))
        # decoded == encoded for a few
        for p, c, s, i, h, idv in info[:4]:
            try:
                dc = protos.fresh(d).decode(list(protos.frames(c)[0]), d.frequency)
            except Exception:
                continue
            ctx.count(('dec', d.name, s))
            try:
                if not (dc == c) or str(dc) != s or int(dc) != i:
                    ctx.violation(d.name, 'decoded-differs-from-encoded', '%s %s: decoded %s/%s encoded %s/%s' % (d.name, p, dc, int(dc), s, i), dict(protocol=d.name), input=dict(a=p, b=p))
            except Exception:
                pass
        # pairs
        pairs = itertools.combinations(info, 2)
        npairs = 0
        for (pa, ca, sa, ia, ha, ida), (pb, cb, sb, ib, hb, idb) in pairs:
            npairs += 1
            if npairs > (3000 if not ctx.thorough else 600000):
                break
            ctx.count((d.name, sa, sb), nontrivial=ida != idb)
            F = dict(protocol=d.name)
            inp = dict(a=pa, b=pb)
            if ida == idb:
                if sa != sb or ia != ib or ha != hb or not (ca == cb):
                    ctx.violation(d.name, 'equal-identity-differs', '%s %s vs %s' % (d.name, pa, pb), F, input=inp)
                continue
            if sa == sb:
                ctx.violation(d.name, 'str-collision', '%s %s and %s both render %s' % (d.name, pa, pb, sa), F, input=inp)
            if ia == ib:
                ctx.violation(d.name, 'int-collision', '%s %s (%s) and %s (%s) both have int %d' % (d.name, pa, sa, pb, sb, ia), F, input=inp)
            if ha == hb and ia != ib:
                ctx.violation(d.name, 'hex-collision', '%s %s and %s' % (d.name, pa, pb), F, input=inp)
            if ca == cb:
                ctx.violation(d.name, 'eq-collision', '%s %s == %s' % (d.name, pa, pb), F, input=inp)
            if npairs <= 60:
                try:
                    fb = cb.normalized_rlc[0] if len(cb.normalized_rlc) == 1 else cb.normalized_rlc
                    fa = ca.normalized_rlc[0] if len(ca.normalized_rlc) == 1 else ca.normalized_rlc
                    if fa != fb and ca == fb:
                        ctx.violation(d.name, 'equals-other-timings', '%s %s equals the timing list of %s' % (d.name, pa, pb), F, input=inp)
                except Exception:
                    pass
    try:
        outs = vlib.Driver().run(ops)
        ctx.corr['ops'] = len(ops)
        ctx.corr['dist'] = {'ident': len(ops)}
        for o, m, rl in zip(ops, outs, reals):
            if m != rl and len(ctx.corr['disagreements']) < 10:
                ctx.disagree(o, m, rl)
    except Exception as e:
        ctx.oblige('correspondence_driver', False, str(e)[:300])
    if ops:
        ctx.sample({'op': ops[0], 'real_and_model': reals[0]})


def replay(path):
    ctx = vlib.Ctx('C14', 'quick')
    check(ctx)
    return vlib.finish(ctx)
