"""step 1+2 for the engine properties: regenerate IRGen from /repo, build, audit."""
import vlib, extract, genobl


def prove(ctx, modules, with_obligations=True):
    tabs = extract.tables()
    extract.write_lean(tabs)
    gen = []
    if with_obligations:
        names, missing = genobl.write(tabs)
        gen = ['IRGen.Obligations']
        for m in missing:
            ctx.oblige('IRGen.Obl.wf_%s' % m, False, 'protocol listed in tools/fragment.json is no longer modelled (table shape changed)')
        ctx.extra['classA_protocols'] = len(names) // 3
    ok = vlib.prove(ctx, modules, gen)
    return tabs, ok


def failed_protocols(ctx):
    """protocol names whose generated obligation failed on this run"""
    out = set()
    for name, ok, detail in ctx.obligations:
        if not ok and ('IRGen.Obl.wf_' in name or 'IRGen.Obl.wftol_' in name):
            tail = name.split('_', 1)[1] if False else name.split('.')[-1].split('_', 1)[1]
            out.add(tail.rsplit('_', 1)[0] if tail.rsplit('_', 1)[-1].isdigit() else tail)
    return out
