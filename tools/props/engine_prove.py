"""step 1+2 for the engine properties: regenerate IRGen from /repo, build, audit."""
import vlib, extract, genobl


def prove(ctx, modules, with_obligations=True, with_wrappers=False, wrap_kinds=('c01',), inst_kinds=None):
    tabs = extract.tables()
    extract.write_lean(tabs)
    gen = []
    modules = list(modules)
    if with_wrappers:
        import wrapgen
        wnames, winfo, _ = wrapgen.write(tabs)
        onames, omissing, wmods = wrapgen.write_obligations(tabs, winfo, wrap_kinds)
        for n, why in omissing:
            ctx.oblige('IRGen.WrapObl.%s' % n, False, 'protocol listed in tools/fragment.json has no traced wrapper any more: ' + why)
        ctx.extra['wrappers_traced'] = dict(encode=sum(1 for v in winfo.values() if v['encode'] == 'traced'),
                                            decode=sum(1 for v in winfo.values() if v['decode'] in ('traced', 'not overridden')),
                                            wrapper_obligations=len(onames))
        ctx.extra['wrappers_opaque'] = {n: dict(encode=v['encode'], decode=v['decode']) for n, v in sorted(winfo.items())
                                        if v['encode'] != 'traced' or v['decode'] not in ('traced', 'not overridden')}
        ctx.winfo = winfo
        modules.append('IRModel.Props.Wrapper')
        modules.append('IRModel.Props.Instances')
    if with_obligations:
        names, missing = genobl.write(tabs)
        gen = ['IRGen.Obligations']
        for m in missing:
            ctx.oblige('IRGen.Obl.wf_%s' % m, False, 'protocol listed in tools/fragment.json is no longer modelled (table shape changed)')
        ctx.extra['classA_protocols'] = sum(1 for n in names if '.wf_' in n) // 3
        ctx.extra['classB_protocols'] = sum(1 for n in names if '.wfB_' in n) // 3
        ctx.extra['classC_protocols'] = sum(1 for n in names if '.wfC_' in n) // 3
        ctx.extra['manchester_tables'] = sum(1 for n in names if '.manch_' in n) // 3
    if with_wrappers:
        gen = gen + wmods
        if inst_kinds is None:
            inst_kinds = wrap_kinds[:1]
        inst_kinds = [k for k in inst_kinds if with_obligations or k not in wrapgen.NEEDS_ENGINE]
        imods = wrapgen.write_instances(tabs, winfo, inst_kinds)
        gen = gen + imods
        ctx.extra['instance_theorems'] = sum(len(vlib.theorems_in(m)) for m in imods)
    ok = vlib.prove(ctx, modules, gen)
    return tabs, ok


def failed_protocols(ctx):
    """protocol names whose generated obligation failed on this run"""
    out = set()
    for name, ok, detail in ctx.obligations:
        if not ok and 'IRGen.WrapObl.c' in name:
            out.add(name.split('w_', 1)[1])
        elif not ok and any(('IRGen.Obl.' + k) in name for k in ('wf_', 'wfB_', 'wfC_', 'wfCp_', 'wftol_', 'manch_', 'manchData_')):
            tail = name.split('_', 1)[1] if False else name.split('.')[-1].split('_', 1)[1]
            out.add(tail.rsplit('_', 1)[0] if tail.rsplit('_', 1)[-1].isdigit() else tail)
    return out
