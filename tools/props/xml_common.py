"""shared by C17/C18: real Config save/load helpers under a temp dir outside /repo and /verif"""
import vlib, os, tempfile, shutil, string


def setup():
    vlib.repo_import()
    import realenv, protos
    realenv.take_control()
    return realenv, protos


PRINTABLE = [c for c in string.printable if c not in '\x0b\x0c\r\n\t']


def rand_text(r, n=None, alphabet=None):
    n = r.randint(0, 24) if n is None else n
    alphabet = alphabet or PRINTABLE
    pieces = ['&', '<', '>', '"', "'", '&lt;', '&amp;', '&amp;lt;', '&quot;', '&#38;', ';', '=', ' ', '/', '?>', '<!--', '-->', '/>']
    out = ''
    for _ in range(n):
        out += r.choice(pieces) if r.random() < 0.35 else r.choice(alphabet)
    return out


def codes(s):
    return ' '.join(str(ord(c)) for c in s)


def apply_settings(protos, settings, url):
    for d in protos.all_decoders():
        en, tol, ftol = settings[d.name]
        d.enabled = en
        d.tolerance = tol
        d.frequency_tolerance = ftol
    from pyIRDecoder import protocols
    protocols.config.database_url = url


def read_settings(protos):
    return {d.name: (d.enabled, d.tolerance, d.frequency_tolerance) for d in protos.all_decoders()}


def rand_settings(protos, r):
    tols = [20, 5, 10, 12.5, 0.1, 1e-05, 2e-07, 1e+16, 100, 0, 7, 33.333, 2.5]
    return {d.name: (r.random() < 0.7, r.choice(tols), r.choice([2, 0, 5, 2.5, 1e-05, 10])) for d in protos.all_decoders()}


def save_config(path):
    from pyIRDecoder import protocols
    protocols.config.save(path)


def load_config(path):
    """returns the settings after protocols.load_config(Config(path)); raises what the library raises"""
    import pyIRDecoder
    from pyIRDecoder import protocols, Config
    cfg = Config(path)
    protocols.load_config(cfg)
    import realenv
    realenv.take_control()          # load_config restarts the worker threads
    import protos
    return read_settings(protos), protocols.config.database_url
