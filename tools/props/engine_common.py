"""Engine correspondence shared by C01/C03/C04/C05/C06/C07/C08/C09/C14:
real `_build_packet`, `CodeWrapper` (general path, no middle timings) and `IrProtocolBase.decode` vs the Lean
models Encode.lean / CodeWrapper.lean / Proto.lean through Driver ops tbl/build/parse/inew/itol/idecode."""
import vlib, extract, collections


def py_supported(t):
    if not t['modelled'] or t['has_middle'] or not t['bursts'] or t['variant']:
        return False
    b = t['bursts']
    last = b[0]
    for m, s in b[1:]:
        if m == last[1] and s == last[0]:
            return False
        last = [m, s]
    rb = t['repeat_bursts']
    if rb:
        last = rb[0]
        for m, s in rb[1:]:
            if m == last[1] and s == last[0]:
                return False
            last = [m, s]
    return True


def py_supported_m(t):
    """tables of the Manchester path of the model (lean/IRModel/Manchester.lean: supportedM)"""
    if not t['modelled'] or t['has_middle'] or not t['bursts'] or t['variant']:
        return False
    if t['lead_in'] and t['lead_in'][-1] == -999999999999:
        return False
    b = t['bursts']
    last = b[0]
    for m, s in b[1:]:
        if m == last[1] and s == last[0]:
            return True
        last = [m, s]
    return False


def window(e, tn, td=1):
    hi = (e * (100 * td + tn)) // (100 * td)
    lo = (e * (100 * td - tn)) // (100 * td)
    return (hi, lo) if e < 0 else (lo, hi)


class Engine:
    def __init__(self):
        vlib.repo_import()
        import realenv, protos
        self.env = realenv
        self.protos = protos
        realenv.take_control()
        self.tabs = extract.tables()
        self.by = {t['name']: t for t in self.tabs}
        self.supported_m = [t for t in self.tabs if py_supported_m(t) and not t['repeat_bursts']]
        self.supported = [t for t in self.tabs if py_supported(t)] + self.supported_m
        self.ops = []
        self.reals = []
        self.kinds = collections.Counter()
        self.errs = collections.Counter()
        for t in self.tabs:
            l = extract.driver_line(t)
            if l:
                self.add(l, 'ok')
        self._iid = 0

    def add(self, op, real):
        self.ops.append(op)
        self.reals.append(real)
        self.kinds[op.split()[0]] += 1
        if real.startswith('err'):
            self.errs[real.split()[1]] += 1

    def dec(self, name):
        return self.protos.by_name(name)

    # ---- build
    def capture_builds(self, dec, params, repeat_count=0):
        """run the real encode() while recording every _build_packet call: (items, result)"""
        from pyIRDecoder.integer_wrapper import IntegerWrapper
        cls = dec.__class__
        calls = []
        orig = cls.__dict__.get('_build_packet', None)
        base = cls._build_packet.__func__

        def rec(c, *args, **kwargs):
            items = []
            okrec = True
            for a in args:
                if isinstance(a, list) and all(isinstance(x, int) for x in a):
                    items.append('l:' + (','.join(map(str, a)) or '-'))
                elif isinstance(a, int):
                    items.append('l:%d' % a)
                else:
                    okrec = False
            if c._parameters:
                parameters = c._parameters[:]
            else:
                parameters = getattr(c, '_parameters2', None) or getattr(c, '_parameters1', [])
            for key, start, stop in parameters:
                if key in kwargs:
                    p = kwargs[key]
                    if isinstance(p, IntegerWrapper):
                        if int(p) < 0:
                            okrec = False
                        items.append('f:%d:%d' % (int(p), p.num_bits))
                    else:
                        if p < 0:
                            okrec = False
                        items.append('f:%d:%d' % (p, stop + 1 - start))
            try:
                res = base(c, *args, **kwargs)
                r = 'ok ' + ' '.join(map(str, res))
            except Exception as e:
                res = None
                r = 'err ' + type(e).__name__
            if okrec and list(c._bursts) == [list(x) for x in self.by[cls.__name__]['bursts']] and list(c._lead_in) == self.by[cls.__name__]['lead_in'] and list(c._lead_out) == self.by[cls.__name__]['lead_out']:
                calls.append(('build %s %s' % (cls.__name__, ' '.join(items)), r))
            if res is None:
                raise e
            return res
        cls._build_packet = classmethod(rec)
        try:
            code = self.protos.encode(dec, params, repeat_count)
        finally:
            if orig is None:
                del cls._build_packet
            else:
                cls._build_packet = orig
        return code, calls

    # ---- parse
    def real_parse(self, t, tn, td, data):
        from pyIRDecoder.code_wrapper import CodeWrapper
        tol = tn if td == 1 else tn / float(td)
        try:
            cw = CodeWrapper(t['encoding'], list(t['lead_in']), list(t['lead_out']), [], [list(x) for x in t['bursts']], tol, list(data))
            return 'ok bits=%s clean=%s' % (''.join(map(str, cw.bits)), ' '.join(map(str, list(cw))))
        except Exception as e:
            return 'err ' + type(e).__name__

    def parse_op(self, t, tn, td, data):
        self.add('parse %s %d %d %s' % (t['name'], tn, td, ' '.join(map(str, data))), self.real_parse(t, tn, td, data))

    # ---- instances (base decode)
    def new_inst(self, name):
        self._iid += 1
        iid = 'i%d' % self._iid
        inst = self.dec(name).__class__()
        self.add('inew %s %s' % (iid, name), 'ok')
        return iid, inst

    def show_code(self, inst, c):
        t = self.by[inst.__class__.__name__]
        fields = ','.join('%s:%d' % (n, int(c._data[n])) for n, _, _ in t['params'])
        frame = ' '.join(map(str, [x for f in c.normalized_rlc for x in f]))
        return 'fields=%s frame=%s' % (fields, frame)

    def idecode(self, iid, inst, data):
        from pyIRDecoder import protocol_base
        prev = inst._last_code
        n0 = len(self.env.process_worker.queue)
        arg = list(data)
        try:
            c = protocol_base.IrProtocolBase.decode(inst, arg, inst.frequency)
            r = 'ok ' + self.show_code(inst, c)
            islast = c is prev and prev is not None
        except Exception as e:
            r = 'err ' + type(e).__name__
            islast = False
        stops = len(self.env.process_worker.queue) - n0
        del self.env.process_worker.queue[n0:]
        held = inst._last_code
        r += ' islast=%s stops=%d held=%s' % (str(islast).lower(), stops, self.show_code(inst, held) if held is not None else '-')
        if arg != list(data):
            r += ' ARGUMENT-MODIFIED'     # the model decodes by value (Props/C09.decode_arg_unchanged)
        self.add('idecode %s %s' % (iid, ' '.join(map(str, data))), r)
        return r

    def set_tol(self, iid, inst, tn, td=1):
        inst.tolerance = tn if td == 1 else tn / float(td)
        self.add('itol %s %d %d' % (iid, tn, td), 'ok')

    # ---- run the model and diff
    def finish(self, ctx, label='engine'):
        outs = vlib.Driver().run(self.ops)
        ctx.corr['ops'] += len(self.ops)
        for k, v in self.kinds.items():
            ctx.corr['dist'][k] = ctx.corr['dist'].get(k, 0) + v
        ctx.corr['dist']['real error classes'] = dict(self.errs)
        nbad = 0
        unsupported = 0
        per_proto = collections.Counter()
        for o, m, rl in zip(self.ops, outs, self.reals):
            if m == 'unsupported':
                unsupported += 1
                continue
            if m != rl:
                nbad += 1
                w = o.split()
                per_proto[w[1]] += 1
                if per_proto[w[1]] <= 1 and len(ctx.corr['disagreements']) < 25:
                    ctx.disagree(o[:700], m[:500], rl[:500])
        ctx.corr['dist']['unsupported-by-model'] = unsupported
        ctx.corr['dist']['disagreeing ops'] = nbad
        ctx.corr['dist']['disagreeing sites'] = dict(per_proto)
        return outs


def perturbations(r, frame, t, tn):
    """near-valid variants of a frame: quarter-tolerance corners, window-edge values, structural damage"""
    out = []
    q = tn / 400.0
    out.append([int(round(x * (1 + q))) if True else x for x in frame])                      # all long
    out.append([int(round(x * (1 - q))) for x in frame])                                       # all short
    out.append([int(round(x * (1 + q if i % 2 else 1 - q))) for i, x in enumerate(frame)])    # alternating
    out.append([int(round(x * (1 + r.uniform(-q, q)))) for x in frame])
    vals = set(t['lead_in'] + t['lead_out'] + [v for p in t['bursts'] for v in p])
    for _ in range(6):
        f = list(frame)
        i = r.randrange(len(f))
        e = f[i]
        lo, hi = window(e, tn)
        f[i] = r.choice([lo, hi, lo - 1, hi + 1, lo + 1, hi - 1])
        if f[i] != 0:
            out.append(f)
    for _ in range(3):
        f = list(frame)
        i = r.randrange(len(f))
        k = r.random()
        if k < 0.3:
            del f[i]
        elif k < 0.6:
            f.insert(i, r.choice(list(vals) or [500]))
        else:
            f[i] = r.choice(list(vals) or [500])
        out.append(f)
    out.append(frame[:r.randrange(len(frame) + 1)])
    out.append(frame + [r.choice([500, -500, 100000])])
    return [f for f in out]


def garbage(r):
    n = r.choice([0, 1, 2, 3, 4, 5, 6, 12, 40])
    k = r.random()
    if k < 0.4:
        return [(1 if i % 2 == 0 else -1) * r.choice([100, 500, 560, 1000, 1690, 4500, 9000, 20000]) for i in range(n)]
    if k < 0.7:
        return [r.choice([-1, 1]) * r.randint(1, 30000) for _ in range(n)]
    return [r.choice([0, 0, 5, -5, 10 ** 7, -10 ** 7, 560, -560]) for _ in range(n)]


def standard_correspondence(ctx, r, per_proto=2, focus=()):
    """the shared model/code tie for the engine properties"""
    E = Engine()
    for t in E.supported:
        d = E.dec(t['name'])
        n = per_proto * (5 if t['name'] in focus else 1)
        if (t.get('repeat_lead_in') or t.get('repeat_lead_out')) and list(d._repeat_lead_in) == t.get('repeat_lead_in') and list(d._repeat_lead_out) == t.get('repeat_lead_out'):
            # `_build_repeat_packet`: the ditto frame built from the class tables
            try:
                res = d.__class__._build_repeat_packet(2)
                rr = 'ok ' + ' '.join(map(str, res[0])) if len(res) == 2 and res[0] == res[1] else 'shape ' + repr(res)[:80]
            except Exception as e:
                rr = 'err ' + type(e).__name__
            E.add('buildrep %s' % t['name'], rr)
        for k in range(n):
            p = E.protos.sample_params(d, r)
            try:
                code, calls = E.capture_builds(d, p, repeat_count=k % 3)
            except Exception:
                continue
            for op, res in calls[:3]:
                E.add(op, res)
            frames = E.protos.frames(code)
            if not frames:
                continue
            fr = frames[0]
            for tn in ((20, 5) if k == 0 else (r.choice([20, 10, 5]),)):
                E.parse_op(t, tn, 1, fr)
                for f in perturbations(r, fr, t, tn):
                    E.parse_op(t, tn, 1, f)
            E.parse_op(t, 20, 1, garbage(r))
            iid, inst = E.new_inst(t['name'])
            if k % 2:
                E.set_tol(iid, inst, r.choice([5, 10, 20]))
            for f in frames[:3] + [fr, garbage(r), fr]:
                E.idecode(iid, inst, f)
    E.finish(ctx)
    ctx.sample({'correspondence_op': E.ops[200][:200], 'real_and_model': E.reals[200][:200]})
    return E
