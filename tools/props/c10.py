"""C10 — dispatcher only uses enabled, frequency-compatible protocols.
Model: lean/IRModel/Dispatcher.lean (parametric), theorems: IRModel/Props/C10.lean."""
import vlib
from props import dispatch_common as dc

MODULES = ['IRModel.Props.C10']


def window(nominal, tol):
    """independent oracle of 'nominal carrier lies within the protocol's frequency tolerance of f':
    the library's own floor window, computed in exact integer/rational arithmetic"""
    from fractions import Fraction
    t = Fraction(tol).limit_denominator(1000)
    lo = (nominal * (100 - t)) // 100
    hi = (nominal * (100 + t)) // 100
    return int(lo), int(hi)


def search(ctx):
    import realenv, protos
    env = realenv
    env.take_control()
    r = vlib.rng('c10')
    decs = protos.all_decoders()
    names = [d.name for d in decs]
    good = []          # (decoder, frame) that decodes on a fresh instance
    for d in decs:
        try:
            f = protos.frames(protos.encode(d, protos.sample_params(d, r)))[0]
            protos.fresh(d).decode(f[:], d.frequency)
            good.append((d, f))
        except Exception:
            pass
    reported = []
    env.protocols.bind_callback(lambda code: None)
    cbf = env.protocols.__dict__['_decode_callback']

    def set_enabled(on):
        for d in decs:
            d.enabled = d in on

    def check(tag, frame, f, expect_disabled=None):
        env.clock.advance(13)
        try:
            code = env.protocols.decode(frame[:], f)
        except Exception as e:
            code = None          # crashes are C08's business
        cbs = []
        env.drain_process(lambda func, args: cbs.append(args[0]) or False if func is cbf else True)
        ctx.count((tag, f, tuple(frame[:6])), nontrivial=code is not None)
        for c in ([code] if code is not None else []) + cbs:
            dec = c.decoder
            if not dec.enabled:
                ctx.violation('FakeModule.decode', 'disabled-protocol-used', '%s: returned %s from disabled %s' % (tag, c, dec.name),
                              dict(protocol=dec.name, scenario=tag.split(':')[0]), input=dict(frame=frame, frequency=f, tag=tag))
            if f != 0:
                lo, hi = window(dec.frequency, dec.frequency_tolerance)
                if not (lo <= f <= hi):
                    ctx.violation('FakeModule.decode', 'frequency-incompatible-protocol-used',
                                  '%s: f=%d but %s nominal %d tol %s%% window [%d,%d]' % (tag, f, dec.name, dec.frequency, dec.frequency_tolerance, lo, hi),
                                  dict(protocol=dec.name, ftol=dec.frequency_tolerance, scenario=tag.split(':')[0]), input=dict(frame=frame, frequency=f, tag=tag))
        return code

    def fresh_state():
        env.reset_dispatcher()
        for d in decs:
            d._last_code = None

    budget = 60 if not ctx.thorough else len(good)
    picks = good if ctx.thorough else r.sample(good, min(budget, len(good)))
    all_on = set(decs)
    for d, fr in picks:
        nominal = d.frequency
        for ftol in ((0, 2, 5) if ctx.thorough else (r.choice([0, 2, 5, 2.5]),)):
            for dd in decs:
                dd.frequency_tolerance = 2
            d.frequency_tolerance = ftol
            lo, hi = window(nominal, ftol)
            fs = [0, nominal, lo, hi, lo - 1, hi + 1, nominal + 1, nominal - 1, int(nominal * 1.2), max(1, nominal // 2)]
            # singleton: only d enabled
            for f in fs:
                fresh_state(); set_enabled({d})
                check('singleton:' + d.name, fr, f)
            # co-singleton: everything but d (d must never answer); only regular ones to keep C08 leaks out
            for f in (0, nominal, hi + 1):
                fresh_state(); set_enabled(set(x for x, _ in good) - {d})
                check('cosingleton:' + d.name, fr, f)
            # held key, then disable: press with d enabled, disable d, same frame and repeat again
            fresh_state(); set_enabled({d} | set(x for x, _ in r.sample(good, 5)))
            c0 = check('held-press:' + d.name, fr, nominal)
            d.enabled = False
            check('held-then-disabled:' + d.name, fr, nominal)
            check('held-then-disabled:' + d.name, fr, 0)
            d.enabled = True
            # held key, then incompatible frequency
            fresh_state(); set_enabled({d})
            check('held-press:' + d.name, fr, nominal)
            check('held-then-far-frequency:' + d.name, fr, hi + 1)
            check('held-then-far-frequency:' + d.name, fr, max(1, lo - 1))
        d.frequency_tolerance = 2
        # tolerance narrowed between two decodes at the SAME frequency with the SAME enabled set (a cached
        # frequency filter would keep the stale answer; seed C10d): wide tolerance, press at an off-nominal
        # carrier, narrow, same frame (held-key shortcut) and again after the release (main loop)
        for company in (set(), set(x for x, _ in r.sample(good, 3))):
            fresh_state(); set_enabled({d} | company)
            d.frequency_tolerance = 10
            f_off = nominal - int(nominal * 0.07)
            check('tolerance-wide-press:' + d.name, fr, f_off)
            for narrow in (2, 0):
                d.frequency_tolerance = narrow
                check('tolerance-narrowed:' + d.name, fr, f_off)
            for dd in decs:
                dd._last_code = None
            env.clock.advance(2000)
            check('tolerance-narrowed-after-release:' + d.name, fr, f_off)
            d.frequency_tolerance = 2
    # random subsets x frames of every good protocol
    for _ in range(150 if not ctx.thorough else 1500):
        fresh_state()
        on = set(x for x, _ in r.sample(good, r.randint(1, 12)))
        set_enabled(on)
        d, fr = r.choice(good)
        check('subset', fr, r.choice([0, d.frequency, d.frequency + 1, 40000, 38000, 36000]))
    # helper entry points must not change the enabled set
    fresh_state(); set_enabled(all_on)
    before = list(env.protocols.enabled_decoders)
    for d, fr in picks[:10]:
        try:
            code = protos.encode(d, protos.mid_params(d))
            pr = code.normalized_rlc_pronto
        except Exception:
            continue
        for helper, arg in (('decode_pronto_code', pr),):
            try:
                getattr(env.pyIRDecoder, helper)(arg)
            except Exception:
                pass
            env.drain_process()
            after = list(env.protocols.enabled_decoders)
            ctx.count(('helper', helper, d.name))
            if after != before:
                ctx.violation('pyIRDecoder.' + helper, 'enabled-set-changed', 'disabled behind the caller: %s' % sorted(set(before) - set(after)),
                              dict(helper=helper), input=dict(pronto=pr[:80]))
                set_enabled(all_on)
    ctx.sample({'scenario': 'singleton/cosingleton/held-then-disabled/held-then-far-frequency/tolerance-narrowed/subset', 'protocols_with_decodable_frames': len(good)})
    set_enabled(all_on)
    for d in decs:
        d.frequency_tolerance = 2
    fresh_state()


def check(ctx):
    ctx.rule = ('correspondence: random sessions of the REAL FakeModule._decode with scripted stub decoders vs the Lean model '
                '(ops disp_dec/disp_beh/disp_decode/disp_enable/disp_ftol/disp_release; frequencies at the exact window edges +-1, '
                'tolerances 0,1,2,2.5,5,20 %); search: real decoders, each singleton / co-singleton / held-key-then-disabled / '
                'held-key-then-incompatible-frequency / tolerance-narrowed-between-decodes (same frequency, same enabled set) / random subsets, frequencies {0, nominal, window edges +-1, far}, frequency_tolerance {0,2,2.5,5}; '
                'oracle = returned code and every decode-callback argument comes from an enabled decoder whose integer window contains f; '
                'helper entry points leave enabled_decoders unchanged. non-trivial = a code was returned')
    vlib.prove(ctx, MODULES)
    try:
        dc.correspondence(ctx, 60 if not ctx.thorough else 400, 30, 'c10')
    except Exception as e:
        import traceback
        ctx.oblige('correspondence_driver', False, traceback.format_exc()[-400:])
    search(ctx)


def replay(path):
    ctx = vlib.Ctx('C10', 'quick')
    check(ctx)
    return vlib.finish(ctx)
