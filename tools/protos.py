"""Helpers over the real protocol classes (used by the search/correspondence parts)."""
import vlib
vlib.repo_import()
import inspect
import pyIRDecoder
from pyIRDecoder import protocols, protocol_base


def all_decoders():
    """the dispatcher's own decoder instances, in dispatch order"""
    return list(protocols.__dict__['_decoders'])


def by_name(name):
    for d in all_decoders():
        if d.__class__.__name__ == name:
            return d
    raise KeyError(name)


def fresh(dec):
    """a fresh instance of the same protocol class (no history)"""
    return dec.__class__()


def param_specs(dec):
    return [(n, lo, hi) for n, lo, hi in dec.encode_parameters]


def boundary_values(lo, hi):
    vals = {lo, hi, (lo + hi) // 2}
    for k in range(0, 130):
        for v in ((1 << k) - 1, 1 << k, (1 << k) + 1):
            if lo <= v <= hi:
                vals.add(v)
        if (1 << k) > hi:
            break
    return sorted(vals)


def sample_params(dec, r, bias=0.5):
    ps = {}
    for n, lo, hi in param_specs(dec):
        if r.random() < bias:
            ps[n] = r.choice(boundary_values(lo, hi))
        else:
            ps[n] = r.randint(lo, hi)
    return ps


def corner_params(dec):
    """every parameter at its minimum / at its maximum (all-zero and all-one bit patterns are where payloads collide
    with markers, terminators and sentinels)"""
    sp = param_specs(dec)
    return [{n: lo for n, lo, hi in sp}, {n: hi for n, lo, hi in sp}]


def space_size(dec):
    t = 1
    for _, lo, hi in param_specs(dec):
        t *= (hi - lo + 1)
    return t


def all_params(dec):
    import itertools
    sp = param_specs(dec)
    for vs in itertools.product(*[range(lo, hi + 1) for _, lo, hi in sp]):
        yield dict(zip([s_[0] for s_ in sp], vs))


def mid_params(dec):
    return {n: (lo + hi * 2) // 3 for n, lo, hi in param_specs(dec)}


def encode(dec, params, repeat_count=0):
    """dec.encode(**params, repeat_count=n). raises whatever encode raises"""
    kw = dict(params)
    sig = None
    try:
        sig = inspect.signature(dec.encode)
    except (TypeError, ValueError):
        pass
    if sig is None or 'repeat_count' in sig.parameters or any(p.kind == p.VAR_KEYWORD for p in sig.parameters.values()):
        kw['repeat_count'] = repeat_count
    return dec.encode(**kw)


def frames(code):
    return [list(f) for f in code.normalized_rlc]


def view(code, names):
    out = {}
    for n in names:
        try:
            v = getattr(code, n)
            out[n] = None if v is None else int(v)
        except Exception as e:
            out[n] = 'ERR:' + type(e).__name__
    return out


def errclass(e):
    """canonical class of an exception"""
    if isinstance(e, pyIRDecoder.IRException):
        return 'IR:' + type(e).__name__
    return 'LEAK:' + type(e).__name__
