#!/usr/bin/env python3
import json, sys, collections
d = json.load(open(sys.argv[1]))
c = collections.Counter()
ex = {}
for v in d['new']:
    k = (v['site'], v['symptom'], v['fields'].get('protocol'), v['fields'].get('scenario'))
    c[k] += 1
    ex.setdefault(k, v['detail'][:int(sys.argv[2]) if len(sys.argv) > 2 else 160])
for k, n in sorted(c.items(), key=lambda x: str(x)):
    print(n, k, '|', ex[k])
