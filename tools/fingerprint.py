"""Source fingerprints, used ONLY to direct search effort (never as an obligation): a protocol whose class
source differs from the recorded one gets a focused, much deeper search; a changed engine file deepens everything.
Record with:  /venv/bin/python tools/fingerprint.py --record   (after deliberate changes to /repo, e.g. fix: commits)"""
import ast, hashlib, json, os, sys, inspect
import vlib

PATH = os.path.join(vlib.VERIF, 'tools', 'fingerprints.json')
ENGINE = ['protocol_base.py', 'code_wrapper.py', 'integer_wrapper.py', 'ir_code.py', 'protocols/__init__.py',
          'pronto.py', 'utils.py', 'xml_handler.py', 'config.py', 'thread_worker.py', '__init__.py', 'high_precision_timers.py']


def _h(src):
    try:
        return hashlib.sha256(ast.dump(ast.parse(src)).encode()).hexdigest()[:16]
    except SyntaxError:
        return hashlib.sha256(src.encode()).hexdigest()[:16]


def current():
    vlib.repo_import()
    import protos
    out = {'protocols': {}, 'engine': {}}
    for d in protos.all_decoders():
        try:
            mod = sys.modules[d.__class__.__module__]
            out['protocols'][d.name] = _h(inspect.getsource(mod))
        except Exception:
            out['protocols'][d.name] = 'unavailable'
    for f in ENGINE:
        p = os.path.join(vlib.REPO, 'pyIRDecoder', f)
        out['engine'][f] = _h(open(p).read()) if os.path.exists(p) else 'missing'
    return out


def changed():
    """(set of protocol names whose source changed, set of engine files that changed)"""
    cur = current()
    try:
        rec = json.load(open(PATH))
    except Exception:
        return set(), set()
    ps = {n for n, h in cur['protocols'].items() if rec['protocols'].get(n) != h}
    es = {n for n, h in cur['engine'].items() if rec['engine'].get(n) != h}
    return ps, es


if __name__ == '__main__':
    if '--record' in sys.argv:
        json.dump(current(), open(PATH, 'w'), indent=1, sort_keys=True)
        print('recorded')
    else:
        print(changed())
    os._exit(0)
