"""IRP notation: parser, renderer, printer.

Written from the IRP definition (general spec, bit spec, irstream, bit fields, extents, repeat
markers, variations, definitions, assignments), independent of the protocol classes' tables.  Used by
C02 as the oracle: `render(ast, env, rc)` gives the flat list of signed durations (microseconds,
fractions.Fraction) that the specification describes for the parameter values `env` and `rc` repeats.

Lenient extensions (needed by strings in this repository, each recorded on the AST in `lenient`):
  L1  a bare expression item with no width (`(1-(T:1))`) is a bit field whose width is the largest
      explicit width inside it.
  L2  `||` in a definition (`D=0x74||0xF4`) is "first non-zero".
Everything else that does not parse raises IrpError and the string is reported as ill-formed.
"""
import re
from fractions import Fraction as Fr


class IrpError(Exception):
    pass


# ---------------------------------------------------------------------------------------------- lexer
TOK = re.compile(r'''
    (?P<ws>\s+)
  | (?P<num>0[xX][0-9a-fA-F]+|0[bB][01]+|\d+\.\d+|\d+|\.\d+)
  | (?P<name>[A-Za-z_][A-Za-z0-9_]*)
  | (?P<op>\*\*|::|\|\||&&|<<|>>|[{}<>()\[\],|:~^*+\-/%&#=?])
''', re.X)


def lex(s):
    out = []
    i = 0
    while i < len(s):
        m = TOK.match(s, i)
        if not m:
            raise IrpError('bad character %r at %d' % (s[i], i))
        i = m.end()
        if m.lastgroup == 'ws':
            continue
        out.append((m.lastgroup, m.group(m.lastgroup), m.start()))
    out.append(('end', '', len(s)))
    return out


def numval(t):
    if t[:2] in ('0x', '0X'):
        return Fr(int(t, 16))
    if t[:2] in ('0b', '0B'):
        return Fr(int(t, 2))
    return Fr(t)


# ------------------------------------------------------------------------------------------------ AST
# expressions: ('num', Fr) ('name', s) ('un', op, e) ('bin', op, a, b)
#              ('bf', compl, data, width|None, skip|None, reverse, infinite)
# items:       ('dur', sign, Fr, unit) ('ext', Fr, unit) ('bits', expr-bf) ('assign', name, expr)
#              ('stream', items, marker) ('bitspec', symbols, ('stream'..)) ('var', [items, items, items?])
# marker:      ('', 0) ('*', 0) ('+', 0) ('n', k) ('n+', k)


class Parser(object):
    def __init__(self, s):
        self.s = s
        self.t = lex(s)
        self.i = 0
        self.lenient = []
        self.in_bitspec = 0
        self.paren = 0

    def peek(self, k=0):
        return self.t[self.i + k]

    def at(self, v):
        return self.t[self.i][1] == v and self.t[self.i][0] == 'op'

    def eat(self, v):
        if not self.at(v):
            raise IrpError('expected %r at %d, found %r' % (v, self.t[self.i][2], self.t[self.i][1]))
        self.i += 1

    # ---- whole string
    def parse(self):
        gs = self.general()
        if not self.at('<'):
            raise IrpError('bit spec expected at %d' % self.peek()[2])
        syms = self.bitspec()
        if not self.at('('):
            raise IrpError('irstream expected at %d' % self.peek()[2])
        stream = self.irstream()
        defs = []
        while self.at('{'):
            defs += self.definitions()
        if self.peek()[0] != 'end':
            raise IrpError('trailing text at %d: %r' % (self.peek()[2], self.peek()[1]))
        return dict(general=gs, bitspec=syms, stream=stream, defs=defs, lenient=self.lenient, source=self.s)

    def general(self):
        self.eat('{')
        g = dict(freq=None, unit=None, unit_kind='u', order=None, duty=None)
        while True:
            k, v, p = self.peek()
            if k == 'num':
                self.i += 1
                n = numval(v)
                k2, v2, p2 = self.peek()
                if k2 == 'name' and v2 == 'k':
                    self.i += 1
                    g['freq'] = n * 1000
                elif k2 == 'name' and v2 in ('u', 'p'):
                    self.i += 1
                    g['unit'] = n
                    g['unit_kind'] = v2
                elif k2 == 'op' and v2 == '%':
                    self.i += 1
                    g['duty'] = n
                else:
                    g['unit'] = n
            elif k == 'name' and v in ('msb', 'lsb'):
                self.i += 1
                g['order'] = v
            else:
                raise IrpError('bad general spec item %r at %d' % (v, p))
            if self.at(','):
                self.i += 1
                continue
            break
        self.eat('}')
        return g

    def definitions(self):
        self.eat('{')
        out = []
        while True:
            k, v, p = self.peek()
            if k != 'name':
                raise IrpError('definition name expected at %d' % p)
            self.i += 1
            self.eat('=')
            out.append((v, self.expr()))
            if self.at(','):
                self.i += 1
                continue
            break
        self.eat('}')
        return out

    def bitspec(self):
        self.eat('<')
        self.in_bitspec += 1
        try:
            syms = [self.bare()]
            while self.at('|'):
                self.i += 1
                syms.append(self.bare())
        finally:
            self.in_bitspec -= 1
        self.eat('>')
        n = len(syms)
        if n < 2 or n & (n - 1):
            raise IrpError('bit spec with %d symbols' % n)
        return syms

    def irstream(self):
        self.eat('(')
        items = self.bare()
        self.eat(')')
        k, v, p = self.peek()
        marker = ('', 0)
        if k == 'op' and v in ('*', '+'):
            self.i += 1
            marker = (v, 0)
        elif k == 'num' and re.match(r'^\d+$', v):
            self.i += 1
            if self.at('+'):
                self.i += 1
                marker = ('n+', int(v))
            else:
                marker = ('n', int(v))
        return ('stream', items, marker)

    def bare(self):
        items = [self.item()]
        while self.at(','):
            self.i += 1
            items.append(self.item())
        return items

    def item(self):
        k, v, p = self.peek()
        if k == 'op' and v == '[':
            alts = []
            while self.at('['):
                self.i += 1
                if self.at(']'):
                    alts.append([])
                else:
                    alts.append(self.bare())
                self.eat(']')
            if len(alts) not in (2, 3):
                raise IrpError('variation with %d alternatives at %d' % (len(alts), p))
            return ('var', alts)
        if k == 'op' and v == '<':
            syms = self.bitspec()
            if not self.at('('):
                raise IrpError('irstream expected after nested bit spec at %d' % self.peek()[2])
            return ('bitspec', syms, self.irstream())
        if k == 'op' and v == '^':
            self.i += 1
            k2, v2, p2 = self.peek()
            if k2 != 'num':
                raise IrpError('extent needs a number at %d' % p2)
            self.i += 1
            return ('ext', numval(v2), self.unit())
        if k == 'name' and self.peek(1)[1] == '=' and self.peek(1)[0] == 'op':
            self.i += 2
            return ('assign', v, self.expr())
        if k == 'op' and v == '(':
            # irstream or parenthesised expression: try the expression first
            save = self.i
            nl = len(self.lenient)
            try:
                return self.expr_item()
            except IrpError:
                self.i = save
                del self.lenient[nl:]
                return self.irstream()
        return self.expr_item()

    def unit(self):
        k, v, p = self.peek()
        if k == 'name' and v in ('u', 'm', 'p'):
            self.i += 1
            return v
        return ''

    def expr_item(self):
        k, v, p = self.peek()
        # plain duration: [-] number [unit] followed by a delimiter
        j = self.i
        sign = 1
        if self.t[j][0] == 'op' and self.t[j][1] == '-':
            sign = -1
            j += 1
        if self.t[j][0] == 'num':
            n = self.t[j][1]
            j += 1
            u = ''
            if self.t[j][0] == 'name' and self.t[j][1] in ('u', 'm', 'p'):
                u = self.t[j][1]
                j += 1
            if self.t[j][0] == 'end' or (self.t[j][0] == 'op' and self.t[j][1] in (',', ')', '|', '>', ']')):
                self.i = j
                return ('dur', sign, numval(n), u)
        e = self.expr()
        if not (self.peek()[0] == 'end' or (self.peek()[0] == 'op' and self.peek()[1] in (',', ')', '|', '>', ']'))):
            raise IrpError('unexpected %r at %d' % (self.peek()[1], self.peek()[2]))
        if e[0] == 'bf' and not e[6]:
            return ('bits', e)
        w = max_width(e)
        if w is None:
            raise IrpError('bare expression without width at %d' % p)
        self.lenient.append('L1@%d' % p)
        return ('bits', ('bf', False, e, ('num', Fr(w)), None, False, False))

    # ---- expressions
    LEVELS = [['||'], ['&&'], ['|'], ['^'], ['&'], ['<<', '>>'], ['+', '-'], ['*', '/', '%'], ['**']]

    def expr(self, lvl=0):
        if lvl == len(self.LEVELS):
            return self.unary()
        a = self.expr(lvl + 1)
        while self.peek()[0] == 'op' and self.peek()[1] in self.LEVELS[lvl]:
            op = self.peek()[1]
            if op == '|' and self.in_bitspec and not self.paren:
                break
            if op == '||':
                self.lenient.append('L2@%d' % self.peek()[2])
            self.i += 1
            b = self.expr(lvl + 1)
            a = ('bin', op, a, b)
        return a

    def unary(self):
        k, v, p = self.peek()
        if k == 'op' and v in ('~', '-', '#'):
            self.i += 1
            e = self.unary()
            if v == '~' and e[0] == 'bf' and not e[6] and not e[1]:
                return ('bf', True) + e[2:]
            return ('un', v, e)
        return self.postfix()

    def primary(self):
        k, v, p = self.peek()
        if k == 'num':
            self.i += 1
            return ('num', numval(v))
        if k == 'name':
            self.i += 1
            return ('name', v)
        if k == 'op' and v == '(':
            self.i += 1
            self.paren += 1
            try:
                e = self.expr()
            finally:
                self.paren -= 1
            self.eat(')')
            return ('par', e)
        raise IrpError('expression expected at %d, found %r' % (p, v))

    def postfix(self):
        d = self.primary()
        if self.at('::'):
            self.i += 1
            s = self.primary()
            return ('bf', False, d, None, s, False, True)
        if self.at(':'):
            self.i += 1
            rev = False
            if self.at('-'):
                self.i += 1
                rev = True
            w = self.primary()
            s = None
            if self.at(':'):
                self.i += 1
                s = self.primary()
            return ('bf', False, d, w, s, rev, False)
        return d


def max_width(e):
    if e[0] in ('num', 'name'):
        return None
    if e[0] == 'par':
        return max_width(e[1])
    if e[0] == 'un':
        return max_width(e[2])
    if e[0] == 'bin':
        ws = [w for w in (max_width(e[2]), max_width(e[3])) if w is not None]
        return max(ws) if ws else None
    if e[0] == 'bf':
        if e[6] or e[3] is None or e[3][0] != 'num':
            return None
        return int(e[3][1])
    return None


def parse(s):
    return Parser(s).parse()


# ---------------------------------------------------------------------------------------------- printer
def pnum(n):
    n = Fr(n)
    if n.denominator == 1:
        return str(n.numerator)
    f = float(n)
    return repr(f)


def pexpr(e):
    k = e[0]
    if k == 'num':
        return pnum(e[1])
    if k == 'name':
        return e[1]
    if k == 'par':
        return '(' + pexpr(e[1]) + ')'
    if k == 'un':
        return e[1] + pexpr(e[2])
    if k == 'bin':
        return pexpr(e[2]) + e[1] + pexpr(e[3])
    if k == 'bf':
        _, c, d, w, s, r, inf = e
        out = ('~' if c else '') + pexpr(d)
        if inf:
            return out + '::' + pexpr(s)
        out += ':' + ('-' if r else '') + pexpr(w)
        if s is not None:
            out += ':' + pexpr(s)
        return out
    raise ValueError(k)


def pitem(it):
    k = it[0]
    if k == 'dur':
        return ('-' if it[1] < 0 else '') + pnum(it[2]) + it[3]
    if k == 'ext':
        return '^' + pnum(it[1]) + it[2]
    if k == 'bits':
        return pexpr(it[1])
    if k == 'assign':
        return it[1] + '=' + pexpr(it[2])
    if k == 'stream':
        m = it[2]
        ms = {'': '', '*': '*', '+': '+', 'n': str(m[1]), 'n+': str(m[1]) + '+'}[m[0]]
        return '(' + ','.join(pitem(x) for x in it[1]) + ')' + ms
    if k == 'bitspec':
        return '<' + '|'.join(','.join(pitem(x) for x in s) for s in it[1]) + '>' + pitem(it[2])
    if k == 'var':
        return ''.join('[' + ','.join(pitem(x) for x in a) + ']' for a in it[1])
    raise ValueError(k)


# ---------------------------------------------------------------------------------------------- evaluate
class Env(object):
    def __init__(self, ast, values):
        self.defs = dict(ast['defs'])
        self.vals = dict(values)
        self.busy = set()

    def get(self, name):
        if name in self.vals:
            return self.vals[name]
        if name in self.defs:
            if name in self.busy:
                raise IrpError('circular definition of ' + name)
            self.busy.add(name)
            try:
                return ev(self.defs[name], self)
            finally:
                self.busy.discard(name)
        raise IrpError('unbound name ' + name)

    def set(self, name, v):
        self.vals[name] = v


def as_int(v):
    v = Fr(v)
    if v.denominator != 1:
        raise IrpError('non-integer in bit expression')
    return int(v)


def ev(e, env):
    k = e[0]
    if k == 'num':
        return as_int(e[1])
    if k == 'name':
        return env.get(e[1])
    if k == 'par':
        return ev(e[1], env)
    if k == 'un':
        v = ev(e[2], env)
        if e[1] == '-':
            return -v
        if e[1] == '~':
            return ~v
        if e[1] == '#':
            if v < 0:
                raise IrpError('# of a negative number')
            return bin(v).count('1')
    if k == 'bin':
        a = ev(e[2], env)
        op = e[1]
        if op == '||':
            return a if a else ev(e[3], env)
        if op == '&&':
            return ev(e[3], env) if a else a
        b = ev(e[3], env)
        if op == '+':
            return a + b
        if op == '-':
            return a - b
        if op == '*':
            return a * b
        if op == '/':
            if b == 0:
                raise IrpError('division by zero')
            return a // b
        if op == '%':
            if b == 0:
                raise IrpError('division by zero')
            return a % b
        if op == '**':
            return a ** b
        if op == '&':
            return a & b
        if op == '|':
            return a | b
        if op == '^':
            return a ^ b
        if op == '<<':
            return a << b
        if op == '>>':
            return a >> b
    if k == 'bf':
        return bf_value(e, env)[0]
    raise IrpError('cannot evaluate ' + k)


def bf_value(e, env):
    """value and width of a bit field"""
    _, c, d, w, s, rev, inf = e
    x = ev(d, env)
    sk = ev(s, env) if s is not None else 0
    if sk < 0:
        raise IrpError('negative skip')
    if c:
        x = ~x
    x >>= sk
    if inf:
        return x, None
    wd = ev(w, env)
    if wd < 0:
        raise IrpError('negative width')
    x &= (1 << wd) - 1
    if rev:
        x = int(bin(x)[2:].zfill(wd)[::-1], 2) if wd else 0
    return x, wd


def names_in(e, acc):
    k = e[0]
    if k == 'name':
        acc.add(e[1])
    elif k == 'par':
        names_in(e[1], acc)
    elif k == 'un':
        names_in(e[2], acc)
    elif k == 'bin':
        names_in(e[2], acc)
        names_in(e[3], acc)
    elif k == 'bf':
        names_in(e[2], acc)
        if e[3] is not None:
            names_in(e[3], acc)
        if e[4] is not None:
            names_in(e[4], acc)


def item_names(it, used, assigned):
    k = it[0]
    if k == 'bits':
        names_in(it[1], used)
    elif k == 'assign':
        names_in(it[2], used)
        assigned.add(it[1])
    elif k == 'stream':
        for x in it[1]:
            item_names(x, used, assigned)
    elif k == 'bitspec':
        for s in it[1]:
            for x in s:
                item_names(x, used, assigned)
        item_names(it[2], used, assigned)
    elif k == 'var':
        for a in it[1]:
            for x in a:
                item_names(x, used, assigned)


def free_names(ast):
    """names the stream needs from outside: (parameters without definition, parameters with a default)"""
    used, assigned = set(), set()
    for s in ast['bitspec']:
        for x in s:
            item_names(x, used, assigned)
    item_names(ast['stream'], used, assigned)
    defs = dict(ast['defs'])
    todo = list(used)
    seen = set()
    need = set()
    while todo:
        n = todo.pop()
        if n in seen:
            continue
        seen.add(n)
        if n in defs:
            acc = set()
            names_in(defs[n], acc)
            todo += list(acc)
        else:
            need.add(n)
    return need, set(defs) & seen, assigned


# ---------------------------------------------------------------------------------------------- render
class Out(object):
    """flat output: list of [signed duration (Fraction), extent_flag]; adjacent same-sign entries merged"""

    def __init__(self):
        self.items = []
        self.since_extent = Fr(0)

    def emit(self, d, ext=False):
        if d == 0:
            return
        self.since_extent += abs(d)
        if self.items and (self.items[-1][0] > 0) == (d > 0):
            self.items[-1][0] += d
            self.items[-1][1] = self.items[-1][1] or ext
        else:
            self.items.append([d, ext])


class Renderer(object):
    def __init__(self, ast, values):
        self.ast = ast
        self.env = Env(ast, values)
        g = ast['general']
        self.freq = g['freq'] if g['freq'] is not None else Fr(38000)
        self.order = g['order'] or 'lsb'
        unit = g['unit'] if g['unit'] is not None else Fr(1)
        if g['unit_kind'] == 'p':
            if not self.freq:
                raise IrpError('unit in periods with frequency 0')
            unit = unit * Fr(1000000) / self.freq
        self.unit = unit
        self.out = Out()
        self.pending = []        # per bit-spec level: list of (value, width)
        self.specs = []
        self.marks = set()       # output positions at which an irstream iteration starts or ends

    def micro(self, n, u):
        if u == '':
            return n * self.unit
        if u == 'u':
            return n
        if u == 'm':
            return n * 1000
        if u == 'p':
            if not self.freq:
                raise IrpError('duration in periods with frequency 0')
            return n * Fr(1000000) / self.freq
        raise IrpError('unit ' + u)

    # bits are collected per level and flushed when something that is not a bit field arrives
    def flush(self, level):
        bits = self.pending[level]
        if not bits:
            return
        self.pending[level] = []
        total = 0
        acc = 0
        for v, w in bits:
            if self.order == 'msb':
                acc = (acc << w) | v
            else:
                acc |= v << total
            total += w
        syms = self.specs[level]
        cs = len(syms).bit_length() - 1
        if total % cs:
            raise IrpError('bit count %d is not a multiple of the chunk size %d' % (total, cs))
        n = total // cs
        for i in range(n):
            if self.order == 'msb':
                c = (acc >> (total - cs * (i + 1))) & ((1 << cs) - 1)
            else:
                c = (acc >> (cs * i)) & ((1 << cs) - 1)
            for it in syms[c]:
                self.item(it, level - 1, 'sym')
        # what the symbols produced for the level below stays pending there until something flushes it

    def item(self, it, level, pas):
        """level: index into self.specs of the bit spec in force (-1 = none, only durations allowed)"""
        k = it[0]
        if k == 'bits':
            if level < 0:
                raise IrpError('bit field outside a bit spec')
            v, w = bf_value(it[1], self.env)
            if w is None:
                raise IrpError('infinite bit field in the stream')
            self.pending[level].append((v, w))
            return
        if k == 'assign':
            self.env.set(it[1], ev(it[2], self.env))
            return
        # anything else ends the run of bit fields at every level from the innermost outwards
        for lv in range(len(self.specs) - 1, -1, -1):
            self.flush(lv)
        if k == 'dur':
            self.out.emit(it[1] * self.micro(it[2], it[3]))
        elif k == 'ext':
            e = self.micro(it[1], it[2])
            gap = e - self.out.since_extent
            if gap <= 0:
                raise IrpError('extent %s shorter than its content' % pnum(e))
            self.out.emit(-gap, True)
            self.out.since_extent = Fr(0)
        elif k == 'bitspec':
            self.specs.append(it[1])
            self.pending.append([])
            self.stream(it[2], len(self.specs) - 1, pas)
            for lv in range(len(self.specs) - 1, -1, -1):
                self.flush(lv)
            self.specs.pop()
            self.pending.pop()
        elif k == 'stream':
            self.stream(it, level, pas)
        elif k == 'var':
            alts = it[1]
            idx = {'intro': 0, 'repeat': 1, 'ending': 2}.get(pas, 0)
            if idx >= len(alts):
                return
            for x in alts[idx]:
                self.item(x, level, pas)
        else:
            raise IrpError('item ' + k)

    def stream(self, st, level, pas):
        _, items, marker = st
        n = 1
        if marker[0] in ('n', 'n+'):
            n = marker[1]
        for _ in range(n):
            for lv in range(len(self.specs) - 1, -1, -1):
                self.flush(lv)
            self.marks.add(len(self.out.items))
            for x in items:
                self.item(x, level, pas)
            for lv in range(len(self.specs) - 1, -1, -1):
                self.flush(lv)
            self.marks.add(len(self.out.items))


def split_top(ast):
    """(intro items, repeat stream or None, ending items, top marker)"""
    _, items, marker = ast['stream']
    if marker[0] in ('*', '+'):
        return ([], ('stream', items, ('', 0)), [], marker[0])
    idx = [i for i, x in enumerate(items) if x[0] == 'stream' and x[2][0] in ('*', '+', 'n+')]
    if not idx:
        if marker[0] == 'n':
            return ([('stream', items, marker)], None, [], '')
        return (items, None, [], '')
    if len(idx) > 1:
        raise IrpError('more than one repeat part')
    i = idx[0]
    rep = items[i]
    intro = list(items[:i])
    m = rep[2][0]
    body = ('stream', rep[1], ('', 0))
    return (intro, body, list(items[i + 1:]), m if m != 'n+' else '+')


def render(ast, values, rc):
    """flat signal for one key press held for `rc` repeats: list of (duration, is_extent_gap)"""
    intro, rep, ending, m = split_top(ast)
    r = Renderer(ast, values)
    r.specs.append(ast['bitspec'])
    r.pending.append([])
    for x in intro:
        r.item(x, 0, 'intro')
    r.flush(0)
    had_intro = bool(r.out.items)
    count = rc
    if rep is not None:
        if m == '+' or not had_intro:
            # `+`: the body is part of the first transmission; `*` with nothing before it: a key press
            # sends the body at least once
            r.stream(rep, 0, 'intro' if m == '+' else 'repeat')
        for _ in range(count):
            r.stream(rep, 0, 'repeat')
    elif rc:
        # no repeat part: the whole signal is sent again
        for _ in range(rc):
            for x in intro:
                r.item(x, 0, 'repeat')
            r.flush(0)
    for x in ending:
        r.item(x, 0, 'ending')
    r.flush(0)
    return [(d, e) for d, e in r.out.items]


def frequency(ast):
    f = ast['general']['freq']
    return Fr(38000) if f is None else f


if __name__ == '__main__':
    import sys
    a = parse(sys.argv[1])
    print(pitem(a['stream']))
    vals = {}
    for kv in sys.argv[3:]:
        k, v = kv.split('=')
        vals[k] = int(v)
    for d, e in render(a, vals, int(sys.argv[2]) if len(sys.argv) > 2 else 0):
        print(float(d), '^' if e else '')
