"""Translator, part 2: traced wrappers (tools/wtrace.py, run in a fresh process against /repo's working tree)
-> lean/IRGen/Wrap.lean (`def W_<name> : Wrapper`, `allWrappers`) and lean/IRGen/WrapObl.lean
(per-protocol kernel obligations for the wrapper theorems of IRModel/Props/Wrapper.lean)."""
import os, sys, json, subprocess, tempfile
import vlib, extract

BIN = {'add': '.add', 'sub': '.sub', 'mul': '.mul', 'fdiv': '.fdiv', 'mod': '.mod', 'and': '.and', 'or': '.or', 'xor': '.xor',
       'shl': '.shl', 'shr': '.shr'}


def trace_all():
    fd, path = tempfile.mkstemp(suffix='.json', prefix='wtrace_')
    os.close(fd)
    try:
        env = dict(os.environ, VERIF_REPO=vlib.REPO, PYTHONPATH='')
        p = subprocess.run(['/venv/bin/python', os.path.join(vlib.VERIF, 'tools', 'wtrace.py'), '--json', path],
                           capture_output=True, text=True, timeout=600, env=env, cwd=vlib.VERIF)
        if p.returncode != 0:
            raise RuntimeError('wtrace failed: ' + (p.stdout + p.stderr)[-500:])
        return json.load(open(path))
    finally:
        try:
            os.unlink(path)
        except OSError:
            pass


def li(n):
    return '(%d)' % n if n < 0 else str(n)


def lopt(n):
    return 'none' if n is None else '(some %s)' % li(n)


def lstr(s):
    return '"%s"' % s.replace('\\', '\\\\').replace('"', '\\"')


def wexp(e):
    k = e[0]
    if k == 'param':
        return '(.param %s)' % lstr(e[1])
    if k == 'field':
        return '(.field %s)' % lstr(e[1])
    if k == 'lastfield':
        return '(.lastfield %s)' % lstr(e[1])
    if k == 'const':
        return '(.const %s)' % li(e[1])
    if k == 'mk':
        return '(.mk %s %s)' % (wexp(e[1]), li(e[2]))
    if k == 'mkd':
        return '(.mkd %s)' % wexp(e[1])
    if k == 'bin':
        return '(.bin %s %s %s)' % (BIN[e[1]], wexp(e[2]), wexp(e[3]))
    if k == 'ibin':
        return '(.ibin %s %s %s)' % (BIN[e[1]], wexp(e[2]), wexp(e[3]))
    if k in ('shl', 'shr'):
        return '(.%s %s %s)' % (k, wexp(e[1]), wexp(e[2]))
    if k in ('neg', 'pos', 'abs', 'inv', 'rev', 'popcount'):
        return '(.%s %s)' % (k, wexp(e[1]))
    if k in ('invbits', 'revbits'):
        return '(.%s %s %s)' % (k, wexp(e[1]), lopt(e[2]))
    if k == 'slice':
        return '(.slice %s %s %s %s)' % (wexp(e[1]), '.compl' if e[2] == 'true' else '.none', lopt(e[3]), lopt(e[4]))
    if k == 'bit':
        return '(.bit %s %s)' % (wexp(e[1]), li(e[2]))
    raise ValueError('unknown expression node %r' % (k,))


CMP = {'eq': '.eq', 'ne': '.ne', 'lt': '.lt', 'gt': '.gt', 'le': '.le', 'ge': '.ge'}


def cond(c):
    k = c[0]
    if k == 'cmp':
        return '(.cmp %s %s %s)' % (CMP[c[1]], wexp(c[2]), wexp(c[3]))
    if k == 'lastEq':
        return '.lastEq'
    if k == 'not':
        return '(.not %s)' % cond(c[1])
    if k == 'nbits_ne0':
        return '(.nbitsNe0 %s)' % wexp(c[1])
    raise ValueError('unknown condition %r' % (k,))


EFF = {('setLast', 'code'): '.setLastCode', ('setLast', 'none'): '.setLastNone', ('setLast', 'last'): '.setLastLast', ('stopLast',): '.stopLast'}


def tree(t, ind=4):
    pad = ' ' * ind
    if t[0] == 'leaf':
        effs = '[' + ', '.join(EFF[tuple(e)] for e in t[1]) + ']'
        o = t[2]
        if o[0] == 'ret':
            out = '(.ret [%s] %s)' % (', '.join('(%s, %s)' % (lstr(k), wexp(v)) for k, v in o[1]), 'true' if o[2] else 'false')
        elif o[0] == 'retLast':
            out = '.retLast'
        elif o[0] == 'raise':
            out = '(.raise %s)' % lstr(o[1])
        else:
            out = '.retOther'
        return '%s(.leaf %s %s)' % (pad, effs, out)
    return '%s(.ite %s\n%s\n%s)' % (pad, cond(t[1]), tree(t[2], ind + 2), tree(t[3], ind + 2))


def flat(x):
    if isinstance(x, list):
        out = []
        for y in x:
            out += flat(y)
        return out
    return [int(x)]


def packet(p):
    args = []
    for a in p['args']:
        if a[0] == 'timings':
            args.append('.timings %s' % wexp(a[1]))
        else:
            args.append('.lit [%s]' % ', '.join(li(v) for v in flat(a[1])))
    kws = []
    for k, (kind, e) in p['kwargs'].items():
        kws.append('(%s, %s, %s)' % (lstr(k), 'true' if kind == 'iw' else 'false', wexp(e)))
    return '{ args := [%s], kwargs := [%s] }' % (', '.join(args), ', '.join(kws))


def enctrace(t):
    frames = []
    for f in t['frames']:
        if f[0] == 'packet':
            frames.append('.packet %d' % f[1])
        else:
            frames.append('.lit [%s]' % ', '.join(li(v) for v in f[1]))
    return '{ packets := [%s],\n        frames := [%s] }' % (',\n          '.join(packet(p) for p in t['packets']), ', '.join(frames))


def tables_match(tr, t):
    """the tables `_build_packet` saw at call time are the class tables the Lean `Tables` value holds"""
    for rc in ('0', '1', '2'):
        for p in tr['encode'][rc]['packets']:
            tb = p['tables']
            if p['cls'] != t['name'] or tb['lead_in'] != t['lead_in'] or tb['lead_out'] != t['lead_out'] or tb['bursts'] != t['bursts'] or tb['parameters'] != t['params']:
                return False
    return True


def write(tabs, traces=None, path=None):
    traces = traces if traces is not None else trace_all()
    path = path or os.path.join(vlib.LEAN, 'IRGen', 'Wrap.lean')
    by = {t['name']: t for t in tabs}
    lines = ['import IRModel.Wrap', '/-! GENERATED by tools/wrapgen.py (tools/wtrace.py executed on /repo) on every run. Do not edit. -/',
             'namespace IRGen', 'open IRModel IRModel.Wrap', '']
    names = []
    info = {}
    dummy = '(.leaf [] .retOther)'
    for tr in traces:
        n = tr['name']
        t = by.get(n)
        if t is None or not t['modelled']:
            info[n] = dict(encode=tr.get('encode_opaque', 'table shape not modelled'), decode=tr.get('decode_opaque', 'table shape not modelled'), emitted=False)
            continue
        enc_ok = 'encode' in tr and tables_match(tr, t)
        dec = tr.get('decode')
        dec_ok = dec is not None
        info[n] = dict(encode='traced' if enc_ok else tr.get('encode_opaque', 'tables differ at call time'),
                       decode=('traced' if dec and dec.get('overridden') else 'not overridden') if dec_ok else tr.get('decode_opaque'), emitted=True)
        ident = 'W_' + extract.lean_ident(n)[2:]
        names.append(ident)
        lines.append('def %s : Wrapper :=' % ident)
        lines.append('  { name := %s,' % lstr(n))
        if enc_ok:
            lines.append('    enc := [\n      %s],' % ',\n      '.join(enctrace(tr['encode'][rc]) for rc in ('0', '1', '2')))
            f = tr['encode']['0']['frequency']
            lines.append('    frequency := %s,' % ('none' if f is None else '(some %d)' % f))
        else:
            lines.append('    enc := [], frequency := none,')
        if dec_ok and dec.get('overridden'):
            lines.append('    decTraced := true,')
            lines.append('    treeNone :=\n%s,' % tree(dec['none']))
            lines.append('    treeSome :=\n%s }' % tree(dec['some']))
        else:
            lines.append('    decTraced := false, treeNone := %s, treeSome := %s }' % (dummy, dummy))
        lines.append('')
    lines.append('def allWrappers : List Wrapper := [%s]' % ', '.join(names))
    lines.append('end IRGen')
    src = '\n'.join(lines) + '\n'
    old = open(path).read() if os.path.exists(path) else None
    if old != src:
        open(path, 'w').write(src)
    return names, info, traces


KINDS = {'c01': ('wrapC01', 'c01OK'), 'c03': ('wrapC03', 'c03OK'), 'c05': ('wrapC05', 'c05OK'), 'c07': ('wrapC07', 'c07OK'), 'c08': ('wrapC08', 'c08OK'), 'c06': ('wrapC06', 'c06OK'), 'c13': ('wrapC13', 'c13OK')}


def write_obligations(tabs, info, kinds=('c01', 'c03', 'c05', 'c07', 'c08')):
    """IRGen/WrapObl_<kind>.lean: `<kind>OK P_x W_x = true` by kernel evaluation for every protocol of the fragment of
    that kind (tools/fragment.json).  returns (theorem names, [(protocol, why it can no longer be stated)], modules)"""
    frag = json.load(open(os.path.join(vlib.VERIF, 'tools', 'fragment.json')))
    names, missing, mods = [], [], []
    for kind in kinds:
        fkey, fn = KINDS[kind]
        mod = 'WrapObl_' + kind
        path = os.path.join(vlib.LEAN, 'IRGen', mod + '.lean')
        lines = ['import IRGen.Tables', 'import IRGen.Wrap', 'import IRModel.Props.Wrapper',
                 '/-! GENERATED by tools/wrapgen.py on every run: wrapper obligations `%s` of the wrapper-level theorems. -/' % fn,
                 'namespace IRGen.WrapObl', 'open IRModel IRModel.Wrap', '']
        for n in frag.get(fkey, []):
            inf = info.get(n)
            if not inf or not inf.get('emitted'):
                missing.append((kind + 'w_' + n, 'no wrapper could be generated: encode: %s; decode: %s' % ((inf or {}).get('encode'), (inf or {}).get('decode'))))
                continue
            ident = extract.lean_ident(n)[2:]
            thm = '%sw_%s' % (kind, ident)
            names.append('IRGen.WrapObl.' + thm)
            lines.append('theorem %s : %s IRGen.P_%s IRGen.W_%s = true := by decide +kernel' % (thm, fn, ident, ident))
        lines.append('end IRGen.WrapObl')
        src = '\n'.join(lines) + '\n'
        old = open(path).read() if os.path.exists(path) else None
        if old != src:
            open(path, 'w').write(src)
        mods.append('IRGen.' + mod)
    return names, missing, mods


NEEDS_ENGINE = {'c01', 'c03', 'c05', 'c06', 'c04', 'c04b'}
INST_IMPORTS = {'c06': ('c06', 'c01', 'c03', 'c07', 'c08'), 'c04': ('c01',), 'c04b': ('c01',), 'c07h': ('c07', 'c08')}


def write_instances(tabs, info, kinds):
    """IRGen/Inst_<kind>.lean: the property statement `C<nn>Holds P_x W_x tol` for every protocol of the fragment, proved
    by applying the theorem of Props/Instances.lean to that protocol's generated obligations (kernel-checked glue).
    returns the module names.  kinds may contain 'c04' (accept half; needs the c01 wrapper obligations)."""
    frag = json.load(open(os.path.join(vlib.VERIF, 'tools', 'fragment.json')))
    have = {t['name'] for t in tabs if t['modelled']}
    clsA, clsB, clsC, tolA = set(frag['classA']), set(frag.get('classB', [])), set(frag.get('classC', [])), set(frag.get('tolA', []))
    clsCp = set(frag.get('classCp', []))
    mods = []
    for kind in kinds:
        fkey = KINDS[kind][0] if kind in KINDS else {'c07h': 'wrapC07'}.get(kind, 'wrapC01')
        deps = INST_IMPORTS.get(kind, (kind,))
        lines = ['import IRGen.Tables', 'import IRGen.Wrap', 'import IRModel.Props.Instances']
        if kind in NEEDS_ENGINE:
            lines.append('import IRGen.Obligations')
        lines += ['import IRGen.WrapObl_' + d for d in deps]
        lines += ['/-! GENERATED by tools/wrapgen.py on every run: property %s stated for each protocol of the fragment and proved from its obligations. -/' % kind.upper(),
                  'namespace IRGen.Inst', 'open IRModel IRModel.Wrap IRModel.Props.Wrapper IRGen.WrapObl' + (' IRGen.Obl' if kind in NEEDS_ENGINE else ''), '']
        H = kind.upper() + 'Holds'
        for n in frag.get(fkey, []):
            inf = info.get(n)
            if not inf or not inf.get('emitted') or n not in have:
                continue
            i = extract.lean_ident(n)[2:]
            if any(n not in frag.get(KINDS[d][0], []) for d in deps):
                continue
            if kind in NEEDS_ENGINE:
                if kind == 'c04':
                    if n not in clsA or n not in tolA:
                        continue
                elif kind == 'c04b':
                    if n not in clsB or n not in set(frag.get('tolB', [])):
                        continue
                elif n not in clsA and n not in clsB and n not in clsC and n not in clsCp:
                    continue
                for tol in ((20,) if kind == 'c03' else (5, 10, 20)):
                    eng = ('(.A wf_%s_%d)' if n in clsA else '(.B wfB_%s_%d)' if n in clsB else '(.C wfC_%s_%d)' if n in clsC else '(.Cp wfCp_%s_%d)') % (i, tol)
                    if kind == 'c03':
                        lines.append('theorem %s_%s : C03Holds IRGen.P_%s IRGen.W_%s := C03_holds _ _ ⟨%d, 1⟩ ⟨by decide, by decide⟩ %s c03w_%s' % (kind.upper(), i, i, i, tol, eng, i))
                    elif kind == 'c04b':
                        lines.append('theorem C04B_%s_%d : C04BHolds IRGen.P_%s IRGen.W_%s ⟨%d, 1⟩ := C04B_holds _ _ _ ⟨by decide, by decide⟩ wfB_%s_%d wftol_%s_%d c01w_%s' % (i, tol, i, i, tol, i, tol, i, tol, i))
                    elif kind == 'c04':
                        lines.append('theorem C04_%s_%d : C04Holds IRGen.P_%s IRGen.W_%s ⟨%d, 1⟩ := C04_holds _ _ _ ⟨by decide, by decide⟩ wf_%s_%d wftol_%s_%d c01w_%s' % (i, tol, i, i, tol, i, tol, i, tol, i))
                    elif kind == 'c06':
                        lines.append('theorem C06_%s_%d : C06Holds IRGen.P_%s IRGen.W_%s ⟨%d, 1⟩ := C06_holds _ _ _ ⟨by decide, by decide⟩ %s c01w_%s c03w_%s c06w_%s c07w_%s c08w_%s' % (i, tol, i, i, tol, eng, i, i, i, i, i))
                    else:
                        lines.append('theorem %s_%s_%d : %s IRGen.P_%s IRGen.W_%s ⟨%d, 1⟩ := %s_holds _ _ _ ⟨by decide, by decide⟩ %s %sw_%s' % (kind.upper(), i, tol, H, i, i, tol, kind.upper(), eng, kind, i))
            elif kind == 'c07h':
                lines.append('theorem C07H_%s : C07HHolds IRGen.P_%s IRGen.W_%s := C07H_holds _ _ c07w_%s c08w_%s' % (i, i, i, i, i))
            else:
                lines.append('theorem %s_%s : %s IRGen.P_%s IRGen.W_%s := %s_holds _ _ %sw_%s' % (kind.upper(), i, H, i, i, kind.upper(), kind, i))
        lines.append('end IRGen.Inst')
        mod = 'Inst_' + kind
        path = os.path.join(vlib.LEAN, 'IRGen', mod + '.lean')
        src = '\n'.join(lines) + '\n'
        old = open(path).read() if os.path.exists(path) else None
        if old != src:
            open(path, 'w').write(src)
        mods.append('IRGen.' + mod)
    return mods


if __name__ == '__main__':
    tabs = extract.tables()
    extract.write_lean(tabs)
    names, info, _ = write(tabs)
    print(write_obligations(tabs, info)[1])
    import collections
    print(len(names), collections.Counter((v['encode'] == 'traced', v['decode'] in ('traced', 'not overridden')) for v in info.values()))
    os._exit(0)
