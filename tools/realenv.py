"""Control of the real library's clock and worker threads from the harness (no hooks in /repo):
  * `high_precision_timers.micros` is replaced by a virtual microsecond clock,
  * the two worker singletons are stopped; their queues are drained by the harness on command, using the
    library's own Timer.run_func and the queued callables themselves.
"""
import vlib
vlib.repo_import()
import pyIRDecoder
from pyIRDecoder import protocols, high_precision_timers as hpt, thread_worker, ir_code, protocol_base

_real_micros = hpt.micros


class Clock:
    def __init__(self):
        self.now = 1000000

    def micros(self):
        return self.now

    def advance(self, us):
        self.now += us


clock = Clock()
timer_worker = thread_worker.TimerThreadWorker()
process_worker = thread_worker.ProcessThreadWorker()


def take_control():
    """stop worker threads, install the virtual clock"""
    timer_worker.stop()
    process_worker.stop()
    hpt.micros = clock.micros
    del timer_worker.queue[:]
    del process_worker.queue[:]
    remember_decoders()


def release_control():
    hpt.micros = _real_micros


class _OneShot(object):
    """stop_event of a worker for exactly one pass of its `while not self.stop_event.is_set()` loop"""
    def __init__(self):
        self.n = 0

    def is_set(self):
        self.n += 1
        return self.n > 1

    def set(self):
        pass

    def clear(self):
        pass


class _NoWait(object):
    """queue_event of a worker under the virtual clock: a wait returns at once (the harness decides when time passes)"""
    def wait(self, timeout=None):
        return True

    def is_set(self):
        return False

    def set(self):
        pass

    def clear(self):
        pass


class _KeepList(list):
    """the worker's queue for one call of the REAL run(): the `del self.queue[:]` at the top of run() is skipped once"""
    keep = True

    def __delitem__(self, idx):
        if self.keep and idx == slice(None, None, None):
            self.keep = False
            return
        list.__delitem__(self, idx)


def _one_pass(worker):
    """execute ONE pass of the worker's real run() loop (the code of thread_worker.py as it is now, not a copy of it):
    the stop event reads false exactly once, waits return at once, the queue survives run()'s initial clearing"""
    orig_q, orig_stop, orig_ev = worker.queue, worker.stop_event, worker.queue_event
    q = _KeepList(orig_q)
    worker.queue, worker.stop_event, worker.queue_event = q, _OneShot(), _NoWait()
    try:
        type(worker).run(worker)
    finally:
        worker.stop_event, worker.queue_event = orig_stop, orig_ev
        orig_q[:] = list(q)
        worker.queue = orig_q


def poll_timers():
    """one pass of the REAL TimerThreadWorker.run loop (deadline scan, then run_func on the queued timers)"""
    n0 = len(timer_worker.queue)
    _one_pass(timer_worker)
    return n0 - len(timer_worker.queue)


def drain_process(on_item=None, limit=None):
    """the process worker's queue: with no hook, one pass of the REAL ProcessThreadWorker.run loop; with a hook
    (`on_item` may veto the call, `limit` bounds the number of items) the same pop-and-call loop run by the harness.
    returns list of (func, args)"""
    if on_item is None and limit is None:
        done = list(process_worker.queue)
        guard = 0
        while process_worker.queue and guard < 1000:       # callbacks may queue further work
            _one_pass(process_worker)
            guard += 1
        return done
    done = []
    while process_worker.queue and (limit is None or len(done) < limit):
        func, args = process_worker.queue.pop(0)
        done.append((func, args))
        if on_item is not None and on_item(func, args) is False:
            continue
        try:
            func(*args)
        except Exception:
            import traceback
            traceback.print_exc()
    return done


_pristine = {}
_CONFIG_ATTRS = ('_enabled', '_tolerance', '_frequency_tolerance')


def _copy(v):
    return list(v) if isinstance(v, list) else dict(v) if isinstance(v, dict) else v


def remember_decoders():
    """record every decoder instance's attributes as they are now (first call only: the state at import)"""
    for dec in list(protocols.__dict__['_decoders']):
        if id(dec) not in _pristine:
            _pristine[id(dec)] = (dec, {k: _copy(v) for k, v in vars(dec).items()})


def restore_decoders():
    """put every decoder instance's hidden decode state (half-received two-part frames: Denon._sequence_code,
    Sharp._partial_code, F12._saved_code, swapped _parameters ...) back to the state at import; the configuration
    attributes (enabled, tolerances) are left as they are.  Without this two scenarios run one after the other in the
    same process do not start from the same state (false alarm of C13 thorough, seed 0: Denon + Sharp)."""
    for dec, snap in _pristine.values():
        cur = vars(dec)
        keep = {k: cur[k] for k in _CONFIG_ATTRS if k in cur}
        cur.clear()
        cur.update({k: _copy(v) for k, v in snap.items()})
        cur.update(keep)
        try:
            dec._last_code = None
        except Exception:
            pass


def reset_dispatcher(decoders=None):
    """fresh dispatcher state on the real FakeModule instance (and fresh decode state of every decoder instance)"""
    remember_decoders()
    restore_decoders()
    d = protocols.__dict__
    d['_last_code'] = None
    d['_last_decoder'] = None
    del timer_worker.queue[:]
    del process_worker.queue[:]
    if decoders is not None:
        from collections import deque
        d['_decoders'] = deque(decoders)


def real_decoders():
    return list(protocols.__dict__['_decoders'])
