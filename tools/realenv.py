"""Control of the real library's clock and worker threads from the harness (no hooks in /repo):
  * `high_precision_timers.micros` is replaced by a virtual microsecond clock,
  * the two worker singletons are stopped; their queues are drained by the harness on command, using the
    library's own Timer.run_func and the queued callables themselves.
"""
import vlib
vlib.repo_import()
import pyIRDecoder
from pyIRDecoder import protocols, high_precision_timers as hpt, thread_worker, ir_code, protocol_base

_real_micros = hpt.micros


class Clock:
    def __init__(self):
        self.now = 1000000

    def micros(self):
        return self.now

    def advance(self, us):
        self.now += us


clock = Clock()
timer_worker = thread_worker.TimerThreadWorker()
process_worker = thread_worker.ProcessThreadWorker()


def take_control():
    """stop worker threads, install the virtual clock"""
    timer_worker.stop()
    process_worker.stop()
    hpt.micros = clock.micros
    del timer_worker.queue[:]
    del process_worker.queue[:]
    remember_decoders()


def release_control():
    hpt.micros = _real_micros


def poll_timers():
    """one pass of TimerThreadWorker.run's body: run_func on every queued timer"""
    fired = 0
    for t in timer_worker.queue[:]:
        if t.run_func():
            timer_worker.queue.remove(t)
            fired += 1
    return fired


def drain_process(on_item=None, limit=None):
    """execute queued callables in order (ProcessThreadWorker.run's inner loop). returns list of (func, args)"""
    done = []
    while process_worker.queue and (limit is None or len(done) < limit):
        func, args = process_worker.queue.pop(0)
        done.append((func, args))
        if on_item is not None and on_item(func, args) is False:
            continue
        try:
            func(*args)
        except Exception:
            import traceback
            traceback.print_exc()
    return done


_pristine = {}
_CONFIG_ATTRS = ('_enabled', '_tolerance', '_frequency_tolerance')


def _copy(v):
    return list(v) if isinstance(v, list) else dict(v) if isinstance(v, dict) else v


def remember_decoders():
    """record every decoder instance's attributes as they are now (first call only: the state at import)"""
    for dec in list(protocols.__dict__['_decoders']):
        if id(dec) not in _pristine:
            _pristine[id(dec)] = (dec, {k: _copy(v) for k, v in vars(dec).items()})


def restore_decoders():
    """put every decoder instance's hidden decode state (half-received two-part frames: Denon._sequence_code,
    Sharp._partial_code, F12._saved_code, swapped _parameters ...) back to the state at import; the configuration
    attributes (enabled, tolerances) are left as they are.  Without this two scenarios run one after the other in the
    same process do not start from the same state (false alarm of C13 thorough, seed 0: Denon + Sharp)."""
    for dec, snap in _pristine.values():
        cur = vars(dec)
        keep = {k: cur[k] for k in _CONFIG_ATTRS if k in cur}
        cur.clear()
        cur.update({k: _copy(v) for k, v in snap.items()})
        cur.update(keep)
        try:
            dec._last_code = None
        except Exception:
            pass


def reset_dispatcher(decoders=None):
    """fresh dispatcher state on the real FakeModule instance (and fresh decode state of every decoder instance)"""
    remember_decoders()
    restore_decoders()
    d = protocols.__dict__
    d['_last_code'] = None
    d['_last_decoder'] = None
    del timer_worker.queue[:]
    del process_worker.queue[:]
    if decoders is not None:
        from collections import deque
        d['_decoders'] = deque(decoders)


def real_decoders():
    return list(protocols.__dict__['_decoders'])
