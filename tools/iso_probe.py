"""One isolation scenario in a FRESH interpreter (module- and class-level state of the library starts empty):
   iso_probe.py <proto> <xtol|-> <ytol|-> <alone|after-y>   -> JSON list of outcomes of instance X on the frame variants.
Used by props/c09.py: the same instance X, fed the same frames, must answer the same whether or not another instance Y
(possibly with other settings) was active before it in the process."""
import sys, os, json
sys.path.insert(0, os.path.dirname(os.path.abspath(__file__)))
import vlib
vlib.repo_import()
import realenv, protos
from props import hist_common as hc
realenv.take_control()
name, xtol, ytol, mode = sys.argv[1:5]
d = protos.by_name(name)
r = vlib.rng('isoprobe', name)
p = protos.sample_params(d, r)
base = protos.frames(protos.encode(d.__class__(), p))[0]
seq = [base] + [[int(round(x * k)) or (1 if x > 0 else -1) for x in base] for k in (1.10, 1.30, 0.93, 0.75)]
names = list(p)


def mk(tol):
    i = d.__class__()
    if tol != '-':
        i.tolerance = float(tol) if '.' in tol else int(tol)
    return i


if mode == 'after-y':
    Y = mk(ytol)
    for f in seq:
        hc.outcome(protos, Y, f, names, d.frequency)
X = mk(xtol)
out = [hc.outcome(protos, X, f, names, d.frequency) for f in seq]
print('RESULT ' + json.dumps(out))
sys.stdout.flush()
os._exit(0)
