#!/usr/bin/env python3
"""Confirm a seeded change: fresh worktree of /repo HEAD; demo PASS; apply patch; tests unchanged; demo FAIL.
usage: seed_confirm.py <id> <src_dir_with patch.diff demo.py meta.json> [--keep-as <name>]"""
import sys, os, subprocess, json, shutil, tempfile, re

def sh(cmd, cwd=None, timeout=600):
    p = subprocess.run(cmd, shell=True, cwd=cwd, capture_output=True, text=True, timeout=timeout)
    return p.returncode, p.stdout + p.stderr

def tests(wt):
    rc, out = sh('/venv/bin/python -m pytest -q -p no:cacheprovider --timeout=900 -rA test_protocols 2>&1 | grep -E "^(PASSED|FAILED|ERROR)" | sort', cwd=wt, timeout=900)
    res = {}
    for l in out.splitlines():
        m = re.match(r'(PASSED|FAILED|ERROR) (\S+)', l)
        if m and 'test_xmp' not in m.group(2):
            res[m.group(2)] = m.group(1)
    return res

def main():
    pid, src = sys.argv[1], sys.argv[2]
    name = sys.argv[4] if len(sys.argv) > 4 else pid
    wt = tempfile.mkdtemp(prefix='seedconf_%s_' % pid, dir='/tmp')
    os.rmdir(wt)
    rc, out = sh('git -C /repo worktree add -q --detach %s HEAD' % wt)
    assert rc == 0, out
    try:
        base = tests(wt)
        os.makedirs(wt + '/seed_out')
        shutil.copy(src + '/demo.py', wt + '/seed_out/demo.py')
        rc0, out0 = sh('/venv/bin/python seed_out/demo.py', cwd=wt, timeout=300)
        rc, out = sh('git apply --3way %s/patch.diff || git apply %s/patch.diff' % (src, src), cwd=wt)
        applied = rc == 0
        sh('git reset -q', cwd=wt)
        after = tests(wt) if applied else {}
        rc1, out1 = sh('/venv/bin/python seed_out/demo.py', cwd=wt, timeout=300)
        diff = sh('git diff -- pyIRDecoder', cwd=wt)[1]
        res = dict(id=pid, applied=applied, apply_log=out[-300:], demo_unmodified_rc=rc0, demo_modified_rc=rc1,
                   tests_same=(base == after), n_pass=sum(1 for v in after.values() if v == 'PASSED'),
                   test_diff=[k for k in set(base) | set(after) if base.get(k) != after.get(k)][:10],
                   demo_unmodified_tail=out0[-300:], demo_modified_tail=out1[-500:])
        ok = applied and rc0 == 0 and rc1 == 1 and base == after
        res['confirmed'] = ok
        print(json.dumps(res, indent=1))
        if ok:
            dst = '/verif/seeded/' + name
            os.makedirs(dst, exist_ok=True)
            open(dst + '/patch.diff', 'w').write(diff)   # rebased onto current /repo HEAD
            shutil.copy(src + '/demo.py', dst + '/demo.py')
            meta = {}
            try:
                meta = json.load(open(src + '/meta.json'))
            except Exception:
                pass
            meta.update(dict(property=pid, confirmed_by='tools/seed_confirm.py: fresh worktree of /repo HEAD %s; demo rc=0 before, rc=1 after; test pass/fail sets identical (test_xmp ignored: flaky)' % sh('git -C /repo rev-parse --short HEAD')[1].strip(),
                             what_i_ran=['pytest test_protocols before/after', 'seed_out/demo.py before/after']))
            json.dump(meta, open(dst + '/meta.json', 'w'), indent=1)
    finally:
        sh('git -C /repo worktree remove --force %s' % wt)
        shutil.rmtree(wt, ignore_errors=True)

main()
